"""C04 worker interpreter.  Reads one JSON request from stdin, prints one JSON document.

mode "run":  {"items": [[case, folder], ...]}  - run each request into its folder; cases with fresh=false are also
             reloaded twice here, in the interpreter that ran them.
mode "load": {"folders": [[folder, [output names], [coordinate input names]], ...]} - a FRESH interpreter: started by harness/props/c04.py only
             after every "run" worker has exited, i.e. after every manager process of every run is gone.
"""
import json
import sys

sys.modules["zarr"] = None  # zarr 3.x in this venv breaks `import pipefunc`


def main():
    req = json.load(sys.stdin)
    import pipefunc

    doc = {"pipefunc": pipefunc.__file__}
    if req["mode"] == "run":
        from harness.props import c04

        doc["results"], doc["managers_gone"] = c04.worker_run(req["items"])
    else:
        from harness.props import c04_reload

        out = []
        for folder, names, coords in req["folders"]:
            try:
                out.append(c04_reload.two_loads(folder, names, coords))
            except BaseException as e:  # noqa: BLE001
                out.append(c04_reload.err(e))
        doc["results"] = out
    json.dump(doc, sys.stdout)


if __name__ == "__main__":
    main()
