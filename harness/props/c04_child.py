"""C04: fresh interpreter. Reads {"folders": [[folder, [output names]], ...]} from stdin, reloads each folder twice,
prints one JSON document.  Started by harness/props/c04.py only after the parent's runs are finished and every
manager process of those runs is gone."""
import json
import sys

sys.modules["zarr"] = None  # zarr 3.x in this venv breaks `import pipefunc`


def main():
    from harness.props import c04_reload

    req = json.load(sys.stdin)
    out = []
    for folder, names in req["folders"]:
        try:
            out.append(c04_reload.two_loads(folder, names))
        except BaseException as e:  # noqa: BLE001
            out.append(c04_reload.err(e))
    import pipefunc

    json.dump({"results": out, "pipefunc": pipefunc.__file__}, sys.stdout)


if __name__ == "__main__":
    main()
