"""C04 helper shared by the harness process and the fresh child interpreters: canonical observations of a run folder.

Nothing here imports pipefunc at module import time (the child must first block zarr).
Exceptions are represented JSON-ably as {"__err__": <class name>, "detail": ...}.
"""
from __future__ import annotations

import hashlib
import os


def err(e):
    return {"__err__": type(e).__name__, "detail": f"{type(e).__name__}: {e}"[:300]}


def okey(k):
    if isinstance(k, tuple):
        return [str(x) for x in k]
    if not isinstance(k, str):
        return ["<key of type %s>" % type(k).__name__, str(k)]
    return k


def _tuple(v, f):
    """Tuples are observed as lists of their items; anything else (in particular a list) is made to differ."""
    if isinstance(v, tuple):
        return [f(x) for x in v]
    return ["<%s instead of tuple>" % type(v).__name__, str(v)]


def _sortkey(k):
    return ",".join(k) if isinstance(k, tuple) else k


def odict(d, f):
    return [[okey(k), f(d[k])] for k in sorted(d, key=_sortkey)]


def canon_info(ri, folder, version):
    """RunInfo field-wise: [all_output_names, shapes, masks, internal_shapes, storage, mapspecs, run_folder, version]."""
    internal = None
    if ri.internal_shapes is not None:
        internal = [[k, (_int(v) if isinstance(v, int) and not isinstance(v, bool) else _tuple(v, _int))]
                    for k, v in sorted(ri.internal_shapes.items())]
    storage = ri.storage if isinstance(ri.storage, str) else odict(ri.storage, str)
    if not isinstance(ri.all_output_names, set) or not isinstance(ri.mapspecs_as_strings, list):
        raise TypeError("all_output_names must be a set, mapspecs_as_strings a list")
    return [sorted(ri.all_output_names),
            odict(ri.shapes, lambda v: _tuple(v, _int)),
            odict(ri.shape_masks, lambda v: _tuple(v, _bool)),
            internal,
            storage,
            sorted(ri.mapspecs_as_strings),
            "F" if str(ri.run_folder) == str(folder) else str(ri.run_folder),
            "V" if ri.pipefunc_version == version else str(ri.pipefunc_version)]


def _int(x):
    if isinstance(x, bool) or not isinstance(x, int):
        raise TypeError(f"shape entry {x!r} is not an int")
    return int(x)


def _bool(x):
    if not isinstance(x, bool):
        raise TypeError(f"mask entry {x!r} is not a bool")
    return x


def values_obs(d):
    from harness import mapsym

    return [[k, mapsym.arr_obs(d[k])] for k in sorted(d)]


def info_obs(ri, folder, version):
    return [canon_info(ri, folder, version), values_obs(ri.inputs), values_obs(ri.defaults)]


def reload_obs(folder, out_names, coord_names=()):
    """One complete reload: load_outputs per output, RunInfo.load, load_xarray_dataset (structure)."""
    import pipefunc
    from harness import mapsym
    from pipefunc.map import load_outputs, load_xarray_dataset
    from pipefunc.map._run_info import RunInfo

    outs = []
    for o in out_names:
        try:
            v = load_outputs(o, run_folder=folder)
            outs.append([o, ["ok", None if v is None else mapsym.arr_obs(v)]])
        except Exception as e:  # noqa: BLE001
            outs.append([o, err(e)])
    try:
        ri = RunInfo.load(folder)
        info = ["ok", info_obs(ri, folder, pipefunc.__version__)]
        names = sorted(ri.all_output_names)
    except Exception as e:  # noqa: BLE001
        info = err(e)
        names = None
    try:
        ds = load_xarray_dataset(run_folder=folder)
        if names is None:
            names = sorted(out_names)
        xr = ["ok", [[n, [str(d) for d in ds[n].dims] if n in ds.variables else ["<absent>"]] for n in names],
              # coordinate values of the 1-D root inputs (taken by pipefunc from the reloaded RunInfo.inputs)
              [[n, mapsym.arr_obs(ds[n].to_numpy()) if n in ds.coords else None] for n in coord_names]]
    except Exception as e:  # noqa: BLE001
        xr = err(e)
    return [outs, info, xr]


def snapshot(folder):
    """{relative path: sha1 of the bytes} for files, None for directories."""
    snap = {}
    for root, dirs, fs in os.walk(folder):
        for d in dirs:
            snap[os.path.relpath(os.path.join(root, d), folder)] = None
        for f in fs:
            p = os.path.join(root, f)
            with open(p, "rb") as fh:
                snap[os.path.relpath(p, folder)] = hashlib.sha1(fh.read()).hexdigest()
    return snap


def listing(folder):
    """Files (relative) plus the array folders directly below outputs/."""
    out = []
    for root, dirs, fs in os.walk(folder):
        for f in fs:
            out.append(os.path.relpath(os.path.join(root, f), folder))
    od = os.path.join(folder, "outputs")
    if os.path.isdir(od):
        out += ["outputs/" + d for d in os.listdir(od) if os.path.isdir(os.path.join(od, d))]
    return sorted(out)


def two_loads(folder, out_names, coord_names=()):
    """[load 1, load 2 or "same", folder unchanged]"""
    before = snapshot(folder)
    l1 = reload_obs(folder, out_names, coord_names)
    l2 = reload_obs(folder, out_names, coord_names)
    after = snapshot(folder)
    return [l1, "same" if strip(l2) == strip(l1) else l2, before == after]


def strip(o):
    """Drop the free-text detail of error markers (only the class is observed)."""
    if isinstance(o, dict) and "__err__" in o:
        return {"__err__": o["__err__"]}
    if isinstance(o, list):
        return [strip(x) for x in o]
    return o
