"""C05 - An interrupted map resumes to the uninterrupted result, redoing no stored work."""
from __future__ import annotations

import contextlib
import io
import json
import random
import os
import re
import shutil
import sys
import tempfile
import traceback

from .. import mapgen, mapsym
from ..coqlit import Err, cbool, clist, cnat, copt, cpair, cstr
from . import c06 as c06mod

PROP = "C05"
RUN = "Run_C05"
THEOREMS = "Props/C05.v"
ANCHORS = [
    ("pipefunc/_utils.py", ["dump", "load", "handle_error"]),
    ("pipefunc/map/_run_info.py", ["RunInfo.__post_init__", "RunInfo.dump", "RunInfo.load", "RunInfo.create",
                                   "RunInfo.init_store", "_compare_to_previous_run_info", "_cleanup_run_folder"]),
    ("pipefunc/map/_run.py", ["run_map", "_existing_and_missing_indices", "_execute_single", "_load_from_store",
                              "_dump_single_output", "_single_dump_single_output", "_maybe_persist_memory",
                              "_run_and_process_generation", "_update_array", "_output_from_mapspec_task",
                              # what happens to completed results when a user function raises
                              "_keep_completed_elements", "_process_task", "_process_task_async", "_process_generation",
                              "_submit_generation", "_maybe_parallel_map", "_maybe_execute_single",
                              "_run_iteration_and_process", "_result"]),
    ("pipefunc/map/_storage_array/_file.py", ["FileArray.__init__", "FileArray.dump", "FileArray.has_index",
                                              "FileArray.get_from_index", "FileArray.mask_linear"]),
    ("pipefunc/map/_storage_array/_dict.py", ["DictArray.__init__", "DictArray.persist", "DictArray.load",
                                              "DictArray.dump", "DictArray.mask_linear"]),
]
RULE = ("small valid structural map requests (<= 3 functions, sizes <= 3, storages file_array and dict) run into a run "
        "folder in a forked child process; (a) the abstract file-system event trace (mkdir / create / append / close / "
        "replace / rmtree / user call) of the first run and of a resumed run is compared with the model's; (b) the child is "
        "(storages file_array, dict and shared_memory_dict) killed with os._exit at EVERY event index k (an append is torn: half of the bytes are written), or a user function "
        "raises at its n-th call, optionally a second crash during the first resume, then a child resumes with "
        "cleanup=False; (c) chains of 1-3 successive interruptions by a raising user function (transient faults at later "
        "and later elements), each run sequential or with a reverse-order executor passed through `executor=` (elements "
        "behind the failing one finish first), storages dict / file_array / shared_memory_dict, then a final resume; "
        "non-trivial = a crash or raise point; distinct by (specs, shapes, storage, crash points / chain)")
ASSUMPTIONS = ["sequential semantics (parallel=False) or one deterministic out-of-order executor (whole queue run in reverse "
               "submission order when the first result is demanded); crash points of worker processes are not injected",
               "file-system operations are atomic and durable in program order (no page-cache / fsync modelling); "
               "rmtree is one event",
               "pickle/cloudpickle/json round trips are the identity on complete files and fail on torn files"]
TRUSTED = ["Model/CrashFS.v compiles the run of Model/MapResume.v into file-system events by hand",
           "the tracer in harness/props/c05.py (monkey-patched os.mkdir / io.open / os.replace / shutil.rmtree in the child)"]

TMP_RE = re.compile(r"^(.*?)\.\d+\.tmp$")


# ------------------------------------------------------------------ the child process
class _Tracer:
    """Abstract event recording + crash injection inside the (forked) child."""

    def __init__(self, root, crash_at=None, half=True):
        self.root = os.path.abspath(root)
        self.events = []
        self.crash_at = crash_at
        self.half = half
        self.installed = False

    managers = ()

    def stop_managers(self):
        """Harness hygiene only: the server processes of shared_memory_dict would outlive the killed child."""
        for m in self.managers:
            with contextlib.suppress(BaseException):
                m.shutdown()

    def rel(self, p):
        try:
            p = os.path.abspath(os.fspath(p))
        except TypeError:
            return None
        if p == self.root:
            return "."
        if p.startswith(self.root + os.sep):
            q = os.path.relpath(p, self.root)
            m = TMP_RE.match(q)
            return "tmp:" + m.group(1) if m else q
        return None

    def tick(self, ev, torn=None):
        """Called BEFORE the effect of `ev`.  Dies here when ev is the crash point."""
        if self.crash_at is not None and len(self.events) == self.crash_at:
            if torn is not None:
                torn()
            self.stop_managers()
            os._exit(17)
        self.events.append(ev)

    def install(self):
        tr = self
        real_mkdir, real_open, real_replace, real_rmtree, real_rename = os.mkdir, io.open, os.replace, shutil.rmtree, os.rename

        def mkdir(path, *a, **k):
            q = tr.rel(path)
            if q is None or os.path.isdir(path):
                return real_mkdir(path, *a, **k)
            if not os.path.isdir(os.path.dirname(os.path.abspath(os.fspath(path)))):
                return real_mkdir(path, *a, **k)  # will fail (parents=True retries after creating the parent)
            tr.tick(["mkdir", q])
            return real_mkdir(path, *a, **k)

        class W:
            def __init__(self, f, q, binary):
                self.f, self.q, self.buf, self.binary, self.closed_ = f, q, [], binary, False

            def write(self, b):
                self.buf.append(b)
                return len(b)

            def close(self):
                if self.closed_:
                    return
                self.closed_ = True
                data = (b"" if self.binary else "").join(self.buf)

                def torn():
                    if tr.half:
                        self.f.write(data[: len(data) // 2])
                        self.f.flush()

                tr.tick(["append", self.q], torn)
                self.f.write(data)
                self.f.flush()
                tr.tick(["close", self.q])
                self.f.close()

            def __enter__(self):
                return self

            def __exit__(self, *a):
                self.close()

            def __getattr__(self, n):
                return getattr(self.f, n)

        def open_(file, mode="r", *a, **k):
            q = tr.rel(file) if isinstance(file, (str, os.PathLike)) else None
            if q is not None and any(ch in mode for ch in "wax+"):
                tr.tick(["create", q])
                return W(real_open(file, mode, *a, **k), q, "b" in mode)
            return real_open(file, mode, *a, **k)

        def replace(a, b, **k):
            qa, qb = tr.rel(a), tr.rel(b)
            if qa is not None or qb is not None:
                tr.tick(["replace", qa, qb])
            return real_replace(a, b, **k)

        def rmtree(p, *a, **k):
            q = tr.rel(p)
            if q is not None:
                tr.tick(["rmtree", q])
            return real_rmtree(p, *a, **k)

        os.mkdir, io.open, os.replace, os.rename, shutil.rmtree = mkdir, open_, replace, replace, rmtree
        import builtins

        builtins.open = open_
        self.installed = True


class _NoTick:
    """Stand-in for the tracer inside worker processes (picklable, no crash injection there)."""

    def tick(self, ev, torn=None):
        pass


def _make_callable(fd, tracer, logpath, fail_line):
    """As mapsym.make_callable, but every call ticks the tracer and is logged to a file; raises at `fail_line`."""
    import inspect
    import itertools

    import numpy as np

    name, params, outs = fd["name"], fd["params"], fd["outs"]
    ish = tuple(fd.get("ret") if fd.get("ret") is not None else fd.get("int") or ())
    aslist = fd.get("intlist", False)

    def body(**kw):
        app = name + "(" + ",".join(f"{p}={mapsym.canon(kw[p])}" for p in params) + ")"
        tracer.tick(["call", app])
        fd_ = os.open(logpath, os.O_WRONLY | os.O_APPEND | os.O_CREAT)
        try:
            os.write(fd_, (app + "\n").encode())
        finally:
            os.close(fd_)
        if fail_line is not None and app == fail_line:
            raise RuntimeError("boom")

        def value(base):
            if not ish:
                return base
            a = np.empty(ish, dtype=object)
            for j in itertools.product(*map(range, ish)):
                a[j] = "elem(" + base + ";" + ",".join(map(str, j)) + ")"
            return a.tolist() if (aslist and len(ish) == 1) else a

        if len(outs) == 1:
            return value(app)
        return tuple(value(f"out({o};{app})") for o in outs)

    dflt = dict(fd.get("defaults") or [])
    body.__signature__ = inspect.Signature([
        inspect.Parameter(p, inspect.Parameter.POSITIONAL_OR_KEYWORD,
                          default=dflt.get(p, inspect.Parameter.empty)) for p in params])
    body.__name__ = name
    body.__qualname__ = name
    return body


def _build(req, tracer, logpath, fail_line):
    from pipefunc import PipeFunc, Pipeline

    funcs = []
    for fd in req["funcs"]:
        outs = fd["outs"]
        funcs.append(PipeFunc(
            _make_callable(fd, tracer, logpath, fail_line),
            output_name=outs[0] if len(outs) == 1 else tuple(outs),
            mapspec=mapsym.spec_str(fd.get("spec")),
            internal_shape=tuple(fd["int"]) if fd.get("int") else None,
            bound=dict(fd.get("bound") or []) or None,
        ))
    return Pipeline(funcs)


def _inplace_patch():
    """Re-create the code before the repair (in-place writes, run_info.json first, DictArray.load keyed on the folder)."""
    import json as _json
    from dataclasses import asdict

    import cloudpickle
    import pipefunc._utils as U
    import pipefunc.map._run as R
    import pipefunc.map._run_info as RI
    import pipefunc.map._storage_array._dict as D
    import pipefunc.map._storage_array._file as F

    def dump(obj, path):
        path.parent.mkdir(parents=True, exist_ok=True)
        with path.open("wb") as f:
            cloudpickle.dump(obj, f)

    for m in (U, R, RI, D, F):
        if hasattr(m, "dump"):
            m.dump = dump

    def post_init(self):
        if self.run_folder is None:
            return
        self.dump()
        for input_name, value in self.inputs.items():
            dump(value, RI._input_path(input_name, self.run_folder))
        dump(self.defaults, RI._defaults_path(self.run_folder))

    def info_dump(self):
        path = self.path(self.run_folder)
        path.parent.mkdir(parents=True, exist_ok=True)
        data = asdict(self)
        del data["inputs"]
        del data["defaults"]
        data["input_paths"] = {k: str(v) for k, v in self.input_paths.items()}
        data["all_output_names"] = sorted(data["all_output_names"])
        dicts_with_tuples = ["shapes", "shape_masks"]
        if isinstance(self.storage, dict):
            dicts_with_tuples.append("storage")
        for key in dicts_with_tuples:
            data[key] = {RI._maybe_tuple_to_str(k): v for k, v in data[key].items()}
        data["run_folder"] = str(data["run_folder"])
        data["defaults_path"] = str(self.defaults_path)
        with path.open("w") as f:
            _json.dump(data, f, indent=4)

    def dict_load(self):
        if self.folder is None:
            return
        if not self.folder.exists():
            return
        self._dict = D.load(self._path())

    RI.RunInfo.__post_init__ = post_init
    RI.RunInfo.dump = info_dump
    D.DictArray.load = dict_load


class ReverseExecutor:
    """Factory (the class is created lazily so that importing this module does not need concurrent.futures state):
    an Executor, passed through the public `executor=` argument, that queues every submit and - when the first result
    is demanded - runs the whole queue in REVERSE submission order in the calling thread.  So when pipefunc collects
    the results in order and meets a failing element, every element behind it has already finished."""

    @staticmethod
    def make():
        from concurrent.futures import Executor, Future

        class _Fut(Future):
            def __init__(self, ex):
                super().__init__()
                self._ex = ex

            def result(self, timeout=None):
                if not self.done():
                    self._ex.flush()
                return super().result(timeout)

            def exception(self, timeout=None):
                if not self.done():
                    self._ex.flush()
                return super().exception(timeout)

        class _Rev(Executor):
            def __init__(self):
                self.queue = []

            def submit(self, fn, /, *args, **kwargs):
                f = _Fut(self)
                self.queue.append((f, fn, args, kwargs))
                return f

            def flush(self):
                q, self.queue = self.queue[::-1], []
                for f, fn, a, k in q:
                    try:
                        f.set_result(fn(*a, **k))
                    except BaseException as e:  # noqa: BLE001
                        f.set_exception(e)

            def shutdown(self, wait=True, *, cancel_futures=False):
                self.flush()

        return _Rev()


def child_run(spec, outpath):
    """Runs in the forked child.  spec: req, folder, cleanup, crash_at, half, fail_line, logpath, inplace."""
    import warnings

    warnings.simplefilter("ignore")
    sink = io.StringIO()
    tracer = _Tracer(spec["folder"], spec.get("crash_at"), spec.get("half", True))
    res = {}
    try:
        with contextlib.redirect_stdout(sink), c06mod.managed_managers() as made:
            tracer.managers = made
            if spec.get("inplace"):
                _inplace_patch()
            pool = bool(spec.get("pool"))
            # with a process pool the user functions run in worker processes: they only log their calls
            p = _build(spec["req"], _NoTick() if pool else tracer, spec["logpath"], spec.get("fail_line"))
            tracer.install()
            try:
                if spec.get("exec"):
                    r = p.map(mapsym.map_inputs(spec["req"]), run_folder=spec["folder"],
                              internal_shapes=mapsym.internal_arg(spec["req"]),
                              storage=spec["req"].get("storage", "file_array"), executor=ReverseExecutor.make(),
                              cleanup=spec["cleanup"])
                elif pool:
                    from concurrent.futures import ProcessPoolExecutor

                    with ProcessPoolExecutor(2) as ex:
                        r = p.map(mapsym.map_inputs(spec["req"]), run_folder=spec["folder"],
                                  internal_shapes=mapsym.internal_arg(spec["req"]),
                                  storage=spec["req"].get("storage", "file_array"), executor=ex,
                                  cleanup=spec["cleanup"])
                else:
                    r = p.map(mapsym.map_inputs(spec["req"]), run_folder=spec["folder"],
                              internal_shapes=mapsym.internal_arg(spec["req"]),
                              storage=spec["req"].get("storage", "file_array"), parallel=False,
                              cleanup=spec["cleanup"])
                res["outcome"] = ["ok", [[x[0], x[1]] for x in mapsym.results_obs(spec["req"], r)]]
            except Exception as e:  # noqa: BLE001
                res["outcome"] = ["err", Err(e).name, f"{type(e).__name__}: {e}"[:200]]
    except BaseException as e:  # noqa: BLE001
        res["outcome"] = ["err", "HarnessError", traceback.format_exc()[-400:]]
    res["events"] = tracer.events
    with open(outpath, "w") as f:  # the tracer's open is installed: outpath is outside the run folder
        json.dump(res, f)


def fork_run(spec, workdir):
    """Fork a child that runs the map; returns (exit_status, result dict or None)."""
    outpath = os.path.join(workdir, f"out_{os.getpid()}_{len(os.listdir(workdir))}.json")
    sys.stdout.flush()
    sys.stderr.flush()
    pid = os.fork()
    if pid == 0:
        code = 0
        try:
            child_run(spec, outpath)
        except BaseException:  # noqa: BLE001
            code = 3
        finally:
            os._exit(code)
    _, status = os.waitpid(pid, 0)
    code = os.waitstatus_to_exitcode(status)
    res = None
    if os.path.exists(outpath):
        with open(outpath) as f:
            res = json.load(f)
        os.unlink(outpath)
    return code, res


def subprocess_run(spec, workdir):
    """As fork_run, but in a fresh /venv/bin/python interpreter (PYTHONPATH = framework + repo)."""
    import subprocess

    from ..common import REPO, VERIF

    specpath = os.path.join(workdir, "spec.json")
    outpath = os.path.join(workdir, "out_sub.json")
    with open(specpath, "w") as f:
        json.dump(spec, f)
    env = dict(os.environ, PYTHONPATH=f"{VERIF}{os.pathsep}{REPO}", PYTHONHASHSEED="0", PYTHONDONTWRITEBYTECODE="1")
    code = subprocess.run([sys.executable, "-m", "harness.props.c05", "--child", specpath, outpath, str(REPO)],
                          env=env, cwd=str(VERIF), timeout=120, stdout=subprocess.DEVNULL,
                          stderr=subprocess.DEVNULL).returncode
    res = None
    if os.path.exists(outpath):
        with open(outpath) as f:
            res = json.load(f)
        os.unlink(outpath)
    return code, res


def read_log(path):
    if not os.path.exists(path):
        return []
    with open(path) as f:
        return [x for x in f.read().split("\n") if x]


def folder_listing(folder):
    """Files below the run folder (tmp files excluded) with whether they load: [[path, 1|0], ...] sorted."""
    import cloudpickle

    out = []
    for base, _dirs, files in os.walk(folder):
        for fn in files:
            p = os.path.join(base, fn)
            q = os.path.relpath(p, folder)
            if TMP_RE.match(q):
                continue
            keys = []
            try:
                with open(p, "rb") as f:
                    if fn.endswith(".json"):
                        json.loads(f.read().decode())
                    else:
                        obj = cloudpickle.load(f)
                        if fn == "dict_array.cloudpickle":
                            keys = sorted([int(x) for x in k] for k in obj)
                ok = 1
            except Exception:  # noqa: BLE001
                ok = 0
            out.append([q, ok, keys])
    return sorted(out)


def dir_listing(folder):
    out = []
    for base, dirs, _files in os.walk(folder):
        for d in dirs:
            out.append(os.path.relpath(os.path.join(base, d), folder))
    return sorted(out)


# ------------------------------------------------------------------ implementation driver
def _outcome(res):
    if res is None:
        return ["err", "NoResult"]
    o = res["outcome"]
    return ["ok", o[1]] if o[0] == "ok" else ["err", o[1]]


class _Work:
    def __enter__(self):
        self.dir = tempfile.mkdtemp(prefix="verif_c05_")
        self.folder = os.path.join(self.dir, "run")
        self.log = os.path.join(self.dir, "calls.log")
        return self

    def __exit__(self, *a):
        shutil.rmtree(self.dir, ignore_errors=True)

    def spec(self, c, cleanup, crash_at=None, fail_line=None, pool=False, exec_=False):
        return {"req": c["req"], "folder": self.folder, "cleanup": cleanup, "crash_at": crash_at,
                "half": c.get("half", True), "fail_line": fail_line, "logpath": self.log, "inplace": bool(c.get("old")),
                "pool": pool, "exec": exec_}

    def take_log(self):
        lines = read_log(self.log)
        if os.path.exists(self.log):
            os.unlink(self.log)
        return lines


def run_events(c):
    with _Work() as w:
        _, r1 = fork_run(w.spec(c, True), w.dir)
        _, r2 = fork_run(w.spec(c, False), w.dir)
        # last component: the model evaluates the decidable hypotheses of the general resume theorem on this request
        return [[] if r1 is None else r1["events"], _outcome(r1), [] if r2 is None else r2["events"], _outcome(r2), True]


def run_crash(c):
    with _Work() as w:
        fork_run(w.spec(c, True, crash_at=c.get("k1"), fail_line=c.get("fail_line")), w.dir)
        before = w.take_log()
        if c.get("k2") is not None:
            fork_run(w.spec(c, False, crash_at=c["k2"]), w.dir)
            before += w.take_log()
        lst = folder_listing(w.folder) if os.path.isdir(w.folder) else []
        runner = subprocess_run if c.get("fresh") else fork_run   # the final resume in a fresh interpreter
        _, r = runner(w.spec(c, False, pool=bool(c.get("pool"))), w.dir)
        out = _outcome(r)
        return [lst, out, sorted(before), sorted(w.take_log()), reload_obs(c["req"], w.folder) if out[0] == "ok" else None]


def run_chain(c):
    """Interrupted runs (a user function raises; sequential or behind the reverse-order executor), then the final resume."""
    with _Work() as w:
        before = []
        for j, st in enumerate(c["steps"]):
            fork_run(w.spec(c, j == 0, fail_line=st["line"], exec_=bool(st.get("exec"))), w.dir)
            before += w.take_log()
        lst = folder_listing(w.folder) if os.path.isdir(w.folder) else []
        _, r = fork_run(w.spec(c, False), w.dir)
        out = _outcome(r)
        return [lst, out, sorted(before), sorted(w.take_log()), reload_obs(c["req"], w.folder) if out[0] == "ok" else None]


def reload_obs(req, folder):
    """What load_outputs reads back from the run folder, per output (in a later process this is all that is left)."""
    from pipefunc.map import load_outputs

    out = []
    with c06mod._quiet(), c06mod.managed_managers():
        for f in req["funcs"]:
            for o in f["outs"]:
                try:
                    out.append([o, mapsym.arr_obs(load_outputs(o, run_folder=folder))])
                except Exception as e:  # noqa: BLE001
                    out.append([o, Err(e)])
    return out


def run_impl_direct(c):
    if c["kind"] == "events":
        return run_events(c)
    if c["kind"] == "crash":
        return run_crash(c)
    if c["kind"] == "chain":
        return run_chain(c)
    raise ValueError(c["kind"])


# The cases of one `generate` call are run by a few worker interpreters in parallel (each case forks its own children
# and uses its own temporary folder, so cases are independent); single cases (replay, shrinking) run right here.
WORKERS = 6
_PENDING: dict = {}
_DONE: dict = {}


def _key(c):
    return json.dumps(c, sort_keys=True)


def _safe_direct(c):
    try:
        return run_impl_direct(c)
    except Exception as e:  # noqa: BLE001
        return Err(e)


def _run_batch(cases):
    import pickle
    import subprocess
    from concurrent.futures import ThreadPoolExecutor

    from ..common import REPO, VERIF, Infra

    tmp = tempfile.mkdtemp(prefix="verif_c05b_")
    try:
        k = max(1, min(WORKERS, len(cases) // 8))
        shards = [list(range(j, len(cases), k)) for j in range(k)]
        env = dict(os.environ, PYTHONPATH=f"{VERIF}{os.pathsep}{REPO}", PYTHONHASHSEED="0", PYTHONDONTWRITEBYTECODE="1")

        def one(j):
            inp, outp = os.path.join(tmp, f"in{j}.pkl"), os.path.join(tmp, f"out{j}.pkl")
            with open(inp, "wb") as f:
                pickle.dump([cases[i] for i in shards[j]], f)
            p = subprocess.run([sys.executable, "-m", "harness.props.c05", "--batch", inp, outp, str(REPO)], env=env,
                               cwd=str(VERIF), timeout=3000, stdout=subprocess.DEVNULL, stderr=subprocess.PIPE, text=True)
            if p.returncode != 0 or not os.path.exists(outp):
                raise Infra(f"C05 batch worker failed (rc={p.returncode}):\n{p.stderr[-1500:]}")
            with open(outp, "rb") as f:
                return pickle.load(f)

        with ThreadPoolExecutor(max_workers=k) as ex:
            res = list(ex.map(one, range(k)))
        out = [None] * len(cases)
        for j, rs in enumerate(res):
            for i, r in zip(shards[j], rs):
                out[i] = r
        return out
    finally:
        shutil.rmtree(tmp, ignore_errors=True)


def run_impl(c):
    k = _key(c)
    if k not in _DONE:
        if k in _PENDING and len(_PENDING) > 1:
            batch = list(_PENDING.values())
            _PENDING.clear()
            for cc, o in zip(batch, _run_batch(batch)):
                _DONE[_key(cc)] = o
        else:
            _PENDING.pop(k, None)
            return _safe_direct(c)
    return _DONE.pop(k)


# ------------------------------------------------------------------ Coq literals
def emit_case(c) -> str:
    st = {"file_array": "FileSt", "dict": "DictSt", "shared_memory_dict": "ShmSt"}[c["req"].get("storage")]
    q = c06mod.req_lit(c["req"])
    if c["kind"] == "events":
        return f"(CEvents {q} {st} {cbool(bool(c.get('old')))})"
    if c["kind"] == "chain":
        steps = clist([f"({cstr(x['fn'])}, {cnat(x['n'])}, {cbool(bool(x.get('exec')))})" for x in c["steps"]])
        return f"(CChain {q} {st} {steps})"
    fail = "None" if not c.get("fail") else f"(Some ({cstr(c['fail'][0])}, {cnat(c['fail'][1])}))"
    return (f"(CCrash {q} {st} {cbool(bool(c.get('old')))} {fail} {copt(c.get('k1'), cnat)} {copt(c.get('k2'), cnat)})")


# ------------------------------------------------------------------ generators
def gen_small_req(rng, storage=None, max_funcs=2, max_size=2):
    while True:
        r = mapgen.gen_request(rng, max_funcs=max_funcs, max_size=max_size, max_rank=2, storages=("file_array",))
        if mapgen.request_size(r) > 8:
            continue
        r["storage"] = storage or rng.choice(["file_array", "dict"])
        return c06mod.sorted_like_pipeline(r)


def probe(req, old=False):
    """Uninterrupted first run and resume: (events of run 1, events of run 2, call lines) or None when it fails."""
    c = {"req": req, "old": old}
    with _Work() as w:
        _, r1 = fork_run(w.spec(c, True), w.dir)
        calls = w.take_log()
        if r1 is None or r1["outcome"][0] != "ok":
            return None
        _, r2 = fork_run(w.spec(c, False), w.dir)
        if r2 is None or r2["outcome"][0] != "ok":
            return None
        return r1["events"], r2["events"], calls


def crash_cases(rng, req, old, every, max_pairs, with_fail=True, only_fail=False):
    pr = probe(req, old)
    if pr is None:
        return []
    ev1, ev2, calls = pr
    out = []
    ks = list(range(len(ev1) + 1))
    if only_fail:
        ks = []
    elif not every:
        ks = sorted(rng.sample(ks, min(len(ks), every_n(len(ks)))))
    prng = random.Random(len(ev1) * 1000003 + len(calls))  # own stream: the main one decides the pipelines
    for k in ks:
        out.append({"kind": "crash", "req": req, "old": old, "fail": None, "k1": k, "k2": None,
                    "half": rng.random() < 0.7, "tag": _tag(ev1, k), "fresh": rng.random() < 0.04,
                    # the resume with a process pool (worker processes dump into the storages)
                    "pool": (not old) and prng.random() < (0.25 if req.get("storage") == "shared_memory_dict" else 0.04)})
    # a second crash during the resume
    for _ in range(max_pairs):
        k1 = rng.randrange(len(ev1) + 1)
        k2 = rng.randrange(len(ev2) + 12)
        out.append({"kind": "crash", "req": req, "old": old, "fail": None, "k1": k1, "k2": k2,
                    "half": rng.random() < 0.7, "tag": "two-crashes"})
    # user function raise points
    if with_fail and calls:
        names = sorted({ln.split("(")[0] for ln in calls})
        for fn in names:
            mine = [ln for ln in calls if ln.split("(")[0] == fn]
            for n in sorted(rng.sample(range(len(mine)), min(len(mine), 3))):
                out.append({"kind": "crash", "req": req, "old": old, "fail": [fn, n], "fail_line": mine[n], "k1": None,
                            "k2": None, "half": True, "tag": "raise",
                            # the memory-based storages were persisted by the failing run: the resume loads them
                            "pool": (not old) and prng.random() < (0.6 if req.get("storage") == "shared_memory_dict" else 0.1)})
                if rng.random() < 0.3:
                    out.append({"kind": "crash", "req": req, "old": old, "fail": [fn, n], "fail_line": mine[n],
                                "k1": None, "k2": rng.randrange(len(ev2) + 6), "half": True, "tag": "raise+crash"})
    return out


def gen_chain_req(rng, storage):
    while True:
        r = mapgen.gen_request(rng, max_funcs=3, max_size=4, max_rank=2, storages=("file_array",))
        if mapgen.request_size(r) > 12:
            continue
        r["storage"] = storage
        return c06mod.sorted_like_pipeline(r)


def chain_cases(rng, req, per_req=4):
    """Chains of interruptions by a raising user function (>= 1 run raises, often 2 or 3 in a row), each run sequential or
    behind the reverse-order executor; the later failure points lie behind the earlier ones so that a resumed run
    completes elements before it raises again."""
    pr = probe(req, False)
    if pr is None:
        return []
    _ev1, _ev2, calls = pr
    by_fn = {}
    for ln in calls:
        by_fn.setdefault(ln.split("(")[0], []).append(ln)
    fns = [fn for fn, l in by_fn.items() if len(l) >= 2]
    out = []
    for _ in range(per_req if fns else 0):
        fn = rng.choice(fns)
        mine = by_fn[fn]
        m = len(mine)
        k = rng.choice([1, 2, 2, 2, 3])
        ns = sorted(rng.sample(range(m), min(k, m)))
        if len(ns) >= 2 and ns[0] == 0 and m > len(ns):      # prefer a non-empty stored prefix after the first raise
            ns = sorted(rng.sample(range(1, m), len(ns))) if m - 1 >= len(ns) else ns
        mode = rng.choice(["seq", "seq", "exec", "exec", "mixed"])
        steps = [{"fn": fn, "n": n, "line": mine[n],
                  "exec": mode == "exec" or (mode == "mixed" and rng.random() < 0.5)} for n in ns]
        out.append({"kind": "chain", "req": req, "steps": steps,
                    "tag": "chain-%d-%s" % (len(steps), "+".join("exec" if x["exec"] else "seq" for x in steps))})
    return out


def every_n(n):
    return max(4, n // 4)


def _tag(evs, k):
    if k >= len(evs):
        return "after-end"
    e = evs[k]
    kind = e[0]
    p = e[1] if kind != "replace" else e[2]
    cls = ("run_info" if "run_info" in p else "input" if p.startswith(("inputs", "tmp:inputs", "defaults", "tmp:defaults"))
           else "dict" if "dict_array" in p else "element" if "__" in p else "single" if p.endswith(".cloudpickle")
           else "dir" if kind == "mkdir" else "other")
    return f"{kind}-{cls}" if kind != "call" else "call"


def generate(rng, tier, mult):
    out = _generate(rng, tier, mult)
    _PENDING.clear()
    for c in out:
        _PENDING[_key(c)] = c
    return out


def _generate(rng, tier, mult):
    out = []
    n_ev = (10 if tier == "quick" else 120) * mult
    for _ in range(n_ev):
        out.append({"kind": "events", "req": gen_small_req(rng, max_funcs=3, max_size=3), "old": False, "tag": "events"})
    for _ in range(max(2, n_ev // 5)):
        out.append({"kind": "events", "req": gen_small_req(rng, max_funcs=3, max_size=3), "old": True, "tag": "events-old"})
    n_pipes = (5 if tier == "quick" else 40) * mult
    for q in range(n_pipes):
        st = ["file_array", "dict"][q % 2]
        out += crash_cases(rng, gen_small_req(rng, storage=st), False, every=True, max_pairs=6 if tier == "quick" else 25)
    # user-function raise points only (run_map persists the memory-based storages in its `finally`)
    for q in range((6 if tier == "quick" else 80) * mult):
        st = ["dict", "shared_memory_dict", "file_array", "dict"][q % 4]
        cs = crash_cases(rng, gen_small_req(rng, storage=st, max_funcs=3), False, every=False, max_pairs=0, only_fail=True)
        if st == "shared_memory_dict":   # resume x shared_memory_dict x process pool x reload from the folder, always
            for c in cs:
                c["pool"] = c["k2"] is None
        out += cs
    # shared_memory_dict: all crash points of a few pipelines
    for q in range((1 if tier == "quick" else 8) * mult):
        out += crash_cases(rng, gen_small_req(rng, storage="shared_memory_dict"), False, every=True,
                           max_pairs=3 if tier == "quick" else 10)
    for q in range((2 if tier == "quick" else 10) * mult):
        st = ["file_array", "dict"][q % 2]
        out += crash_cases(rng, gen_small_req(rng, storage=st), True, every=True, max_pairs=2, with_fail=False)
    # chains of raise-interruptions (sequential / out-of-order executor), every storage, dict most often
    for q in range((9 if tier == "quick" else 120) * mult):
        st = ["dict", "file_array", "dict", "shared_memory_dict", "dict", "dict"][q % 6]
        out += chain_cases(rng, gen_chain_req(rng, st), per_req=3 if tier == "quick" else 5)
    return out


def nontrivial_key(c):
    if c["kind"] == "chain":
        return ([mapsym.spec_str(f.get("spec")) for f in c["req"]["funcs"]],
                [v["sh"] if isinstance(v, dict) else 0 for _, v in c["req"]["inputs"]], c["req"].get("storage"),
                [(x["fn"], x["n"], bool(x.get("exec"))) for x in c["steps"]])
    if c["kind"] != "crash":
        return None
    specs = [mapsym.spec_str(f.get("spec")) for f in c["req"]["funcs"]]
    shapes = [v["sh"] if isinstance(v, dict) else 0 for _, v in c["req"]["inputs"]]
    return (specs, shapes, c["req"].get("storage"), c.get("old"), c.get("fail"), c.get("k1"), c.get("k2"))


def distribution(c):
    return {"kind": c["kind"], "storage": c["req"].get("storage"), "old": bool(c.get("old")), "tag": c.get("tag"),
            "resume_in_fresh_interpreter": bool(c.get("fresh")), "resume_with_process_pool": bool(c.get("pool"))}


def finding_id(c, impl_obs, kind):
    return None


def shrink(c):
    return []


if __name__ == "__main__":  # fresh-interpreter child:  python -m harness.props.c05 --child spec.json out.json <repo>
    if len(sys.argv) == 5 and sys.argv[1] == "--child":
        sys.modules["zarr"] = None
        sys.path.insert(0, sys.argv[4])
        with open(sys.argv[2]) as _f:
            _spec = json.load(_f)
        child_run(_spec, sys.argv[3])
    if len(sys.argv) == 5 and sys.argv[1] == "--batch":      # python -m harness.props.c05 --batch in.pkl out.pkl <repo>
        import pickle

        sys.modules["zarr"] = None
        sys.path.insert(0, sys.argv[4])
        with open(sys.argv[2], "rb") as _f:
            _cases = pickle.load(_f)
        _res = [_safe_direct(_c) for _c in _cases]
        with open(sys.argv[3], "wb") as _f:
            pickle.dump(_res, _f)
