"""C06 - Running a map in pieces (fixed_indices, learners) equals running it whole."""
from __future__ import annotations

import contextlib
import io
import itertools
import json
import os

from .. import mapgen, mapsym
from ..coqlit import Err, cbool, clist, cnat, copt, cpair, cstr, cz

PROP = "C06"
RUN = "Run_C06"
THEOREMS = "Props/C06.v"
ANCHORS = [
    ("pipefunc/map/_run.py", ["_mask_fixed_axes", "_existing_and_missing_indices", "_prepare_submit_map_spec",
                              "_output_from_mapspec_task", "_execute_single", "_load_from_store", "_func_kwargs",
                              "_submit_func", "_process_task", "_run_and_process_generation", "_update_array",
                              "_run_iteration_and_process", "_dump_single_output", "run_map"]),
    ("pipefunc/map/_prepare.py", ["_validate_fixed_indices", "_reduced_axes", "_is_parameter_reduced_by_function",
                                  "_is_parameter_partially_reduced_by_function", "_get_partially_reduced_axes",
                                  "prepare_run"]),
    ("pipefunc/map/adaptive.py", ["create_learners", "_learner", "_sequence", "_execute_iteration_in_map_spec",
                                  "_execute_iteration_in_single", "_maybe_iterate_axes", "_identify_cross_product_axes",
                                  "_iterate_axes", "_key", "LearnersDict"]),
    ("pipefunc/_pipeline/_base.py", ["Pipeline.independent_axes_in_mapspecs", "Pipeline._axis_in_root_arg",
                                     "Pipeline.topological_generations"]),
    ("pipefunc/map/_mapspec.py", ["mapspec_axes"]),
    ("pipefunc/map/_run_info.py", ["RunInfo.create", "_compare_to_previous_run_info"]),
]
RULE = ("valid structural map requests of the C01 generator (internal axes at any position) x families of "
        "fixed_indices requests on 1-2 axes of the root inputs: partitions of range(size) into ints / slices (negative "
        "ints, negative steps, None and negative bounds, strided classes), overlapping and incomplete families, every "
        "order for <= 3 parts (thorough) else a random order, each part run with cleanup=False on the same folder, then a "
        "full run; malformed requests (reduced axis, unknown axis, index out of range on root and on internal axes, "
        "step 0); learners of create_learners with/without split_independent_axes run in random generation-respecting "
        "orders (keys in any order, interleaved or key by key) by adaptive.runner.simple or a plain loop; plus the exhaustive slice/int table against CPython; "
        "non-trivial = >= 2 parts or a learner run; distinct by (specs, shapes, parts/order)")
ASSUMPTIONS = ["sequential semantics (parallel=False)",
               "user functions are deterministic and return arrays of the declared internal shape",
               "to_slurm_run, create_learners_from_sweep, to_adaptive_learner, resources_scope='element' are out of scope"]
TRUSTED = ["Model/MapResume.v mirrors _run.py/_prepare.py/adaptive.py by hand; NumPy boolean assignment and "
           "slice.indices are mirrored by Base/PyRange.v (compared exhaustively with CPython on every run)",
           "harness/mapsym.py structural user functions and canonicalisation of arrays"]

STORAGES = ["file_array"] * 9 + ["dict"] * 8 + ["shared_memory_dict"] * 2


# ------------------------------------------------------------------ request helpers
def internal_after_mapped(req) -> bool:
    for f in req["funcs"]:
        sp = f.get("spec")
        if not sp or not sp["i"]:
            continue
        named = {a for _, ax in sp["i"] for a in ax if a is not None}
        seen_internal = False
        for a in sp["o"][0][1]:
            if a in named:
                if seen_internal:
                    return False
            else:
                seen_internal = True
    return True


def gen_req(rng, max_funcs=3, max_size=3, small=False):
    while True:
        r = mapgen.gen_request(rng, max_funcs=max_funcs, max_size=max_size, max_rank=2 if small else 3,
                               storages=("file_array",))
        if mapgen.request_size(r) > 30:
            continue
        if observation_weight(r) > 15000:   # nested structural strings blow up: keep the Coq literals small
            continue
        r["storage"] = rng.choice(STORAGES)
        return r


def observation_weight(req):
    """Characters of the call log plus of all outputs of one uninterrupted run (generator-side size guard only)."""
    import numpy as np

    log = mapsym.CallLog()
    with _quiet(), mapsym.TempRun() as d:
        try:
            p = mapsym.build_pipeline(req, log)
            r = p.map(mapsym.map_inputs(req), run_folder=d, internal_shapes=mapsym.internal_arg(req),
                      storage="dict", parallel=False)
        except Exception:  # noqa: BLE001
            return 0
        n = sum(len(x) for x in log.read())
        for v in r.values():
            out = v.output
            if isinstance(out, np.ndarray):
                n += sum(len(mapsym.canon(x)) for x in out.reshape(-1))
            else:
                n += len(mapsym.canon(out))
    return n


def root_axes(req):
    """axis name -> size, for named axes of root input arrays (as the MapSpecs name them)."""
    shapes = {k: v["sh"] for k, v in req["inputs"] if isinstance(v, dict)}
    out = {}
    for f in req["funcs"]:
        sp = f.get("spec")
        if not sp:
            continue
        for n, ax in sp["i"]:
            if n in shapes:
                for pos, a in enumerate(ax):
                    if a is not None:
                        out.setdefault(a, shapes[n][pos])
    return out


def reduced_axes_py(req):
    """Generator-side estimate of the axes that cannot be fixed (used only to steer the choice of axes)."""
    names = {}
    for f in req["funcs"]:
        sp = f.get("spec")
        if sp:
            for n, ax in sp["i"] + sp["o"]:
                cur = names.setdefault(n, {})
                for k, a in enumerate(ax):
                    if a is not None:
                        cur[k] = a
    red = set()
    for f in req["funcs"]:
        sp = f.get("spec")
        mapped = {n: ax for n, ax in sp["i"]} if sp else {}
        for q in f["params"]:
            if q not in names:
                continue
            if q not in mapped:
                red.update(names[q].values())
            else:
                red.update(names[q][k] for k, a in enumerate(mapped[q]) if a is None and k in names[q])
    return red


def all_axes(req):
    out = set()
    for f in req["funcs"]:
        sp = f.get("spec")
        if sp:
            for _, ax in sp["i"] + sp["o"]:
                out.update(a for a in ax if a is not None)
    return out


def internal_axes(req):
    """axis name -> size for axes that are internal in some output."""
    sizes = {}
    user = {k: v for k, v in (req.get("internal") or [])}
    for f in req["funcs"]:
        sp = f.get("spec")
        if not sp:
            continue
        named = {a for _, ax in sp["i"] for a in ax if a is not None}
        ish = f.get("ret") or f.get("int") or user.get(sp["o"][0][0]) or []
        k = 0
        for a in sp["o"][0][1]:
            if a not in named:
                if k < len(ish):
                    sizes.setdefault(a, ish[k])
                k += 1
    return sizes


# ------------------------------------------------------------------ selections: int | ["s", a, b, c]
def sel_py(sel):
    return sel if isinstance(sel, int) else slice(sel[1], sel[2], sel[3])


def sel_indices(sel, n):
    if isinstance(sel, int):
        k = sel + n if sel < 0 else sel
        return [k] if 0 <= k < n else None
    return list(range(*slice(sel[1], sel[2], sel[3]).indices(n)))


def enc_block(rng, idxs, n):
    """Encode an arithmetic progression idxs (ascending, inside range(n)) as an int or a slice in a random spelling."""
    a, b = idxs[0], idxs[-1]
    if len(idxs) == 1 and rng.random() < 0.6:
        return a if rng.random() < 0.6 else a - n
    d = idxs[1] - idxs[0] if len(idxs) > 1 else rng.choice([1, 1, 2, 3])
    cands = []
    for _ in range(6):
        if rng.random() < 0.6:  # forward
            start = rng.choice([a, a, a - n] + ([None] if a == 0 else []))
            stops = list(range(b + 1, b + d + 1))
            stop = rng.choice(stops)
            if stop >= n and rng.random() < 0.5:
                stop = rng.choice([None, n, n + 2])
            elif stop < n and rng.random() < 0.3:
                stop = stop - n
            step = d if (d != 1 or rng.random() < 0.5) else None
            cands.append(["s", start, stop, step])
        else:  # backward
            start = rng.choice([b, b, b - n] + ([None, n + 1] if b == n - 1 else []))
            lo = a - d
            stop = rng.choice(list(range(max(lo, -1), a)))
            if stop == -1:
                stop = rng.choice([None, -n - 1, -n - 3])
            elif rng.random() < 0.3:
                stop = stop - n
            cands.append(["s", start, stop, -d])
    rng.shuffle(cands)
    for c in cands:
        if sorted(sel_indices(c, n)) == list(idxs):
            return c
    return ["s", a, b + 1, d]


def gen_partition(rng, n):
    """A partition of range(n) into arithmetic progressions (lists of ascending ints)."""
    kind = rng.choice(["ints", "chunks", "chunks", "stride", "mixed"]) if n > 1 else "ints"
    if kind == "ints":
        return [[k] for k in range(n)]
    if kind == "chunks":
        cuts = sorted(rng.sample(range(1, n), rng.randint(1, n - 1)))
        bounds = [0] + cuts + [n]
        return [list(range(bounds[q], bounds[q + 1])) for q in range(len(bounds) - 1)]
    if kind == "stride":
        k = rng.randint(2, n)
        return [list(range(r, n, k)) for r in range(k)]
    cut = rng.randint(1, n - 1)
    left, right = list(range(cut)), list(range(cut, n))
    out = []
    for blk in (left, right):
        if len(blk) >= 2 and rng.random() < 0.5:
            out += [blk[0::2], blk[1::2]]
        else:
            out.append(blk)
    return out


def gen_parts(rng, req, axes_pool, max_axes=2):
    """A family of fixed_indices requests; returns (parts, kind)."""
    sizes = root_axes(req)
    pool = [a for a in axes_pool if a in sizes]
    if not pool:
        return None, None
    k = 1 if (len(pool) == 1 or rng.random() < 0.6) else min(max_axes, 2)
    axes = rng.sample(pool, k)
    per_axis = []
    for a in axes:
        blocks = gen_partition(rng, sizes[a])
        per_axis.append([(a, enc_block(rng, blk, sizes[a])) for blk in blocks])
    if k == 1:
        parts = [[[a, s]] for a, s in per_axis[0]]
    else:
        parts = []
        for a0, s0 in per_axis[0]:
            second = per_axis[1]
            if rng.random() < 0.4:  # a different partition of the second axis inside this block
                blocks = gen_partition(rng, sizes[axes[1]])
                second = [(axes[1], enc_block(rng, blk, sizes[axes[1]])) for blk in blocks]
            if rng.random() < 0.15:
                parts.append([[a0, s0]])  # the second axis left free (whole)
            else:
                for a1, s1 in second:
                    parts.append([[a0, s0], [a1, s1]] if rng.random() < 0.5 else [[a1, s1], [a0, s0]])
    kind = "partition"
    r = rng.random()
    if r < 0.12 and len(parts) > 1:
        parts.pop(rng.randrange(len(parts)))
        kind = "incomplete"
    elif r < 0.24:
        parts.insert(rng.randrange(len(parts) + 1), json.loads(json.dumps(rng.choice(parts))))
        kind = "overlap"
    if len(parts) > 6:
        parts = parts[:6]
        kind = "incomplete"
    rng.shuffle(parts)
    return parts, kind


# ------------------------------------------------------------------ implementation driver
def _mask_obs(req, store):
    out = []
    for f in req["funcs"]:
        for o in f["outs"]:
            st = store[o]
            if hasattr(st, "mask_linear"):
                out.append([o, [1 if m else 0 for m in st.mask_linear()]])
            elif hasattr(st, "is_file"):
                out.append([o, [0 if st.is_file() else 1]])
            else:
                out.append([o, [0 if st.exists() else 1]])
    return out


def _none_pattern(req, results):
    import numpy as np

    out = []
    for f in req["funcs"]:
        for o in f["outs"]:
            v = results[o].output
            if isinstance(v, np.ndarray) and v.dtype == object and f.get("spec") and f["spec"]["i"]:
                out.append([o, [1 if x is None else 0 for x in v.reshape(-1)]])
            else:
                out.append([o, [0]])
    return out


def _fixed(part):
    return {a: sel_py(s) for a, s in part}


@contextlib.contextmanager
def _quiet():
    import warnings

    with contextlib.redirect_stdout(io.StringIO()), warnings.catch_warnings():
        warnings.simplefilter("ignore")
        yield


def run_parts(c):
    req = c["req"]
    log = mapsym.CallLog()
    with _quiet():
        try:
            p = mapsym.build_pipeline(req, log)
        except Exception as e:  # noqa: BLE001
            return ["build", Err(e)]
        steps = []
        with mapsym.TempRun() as d:
            first = True
            seen = 0
            for part in c["parts"] + ([None] if c.get("final", True) else []):
                try:
                    r = p.map(mapsym.map_inputs(req), run_folder=d, internal_shapes=mapsym.internal_arg(req),
                              storage=req.get("storage", "dict"), parallel=False, cleanup=first,
                              fixed_indices=None if part is None else _fixed(part))
                except Exception as e:  # noqa: BLE001
                    calls = log.read()
                    steps.append([Err(e), len(calls) - seen])
                    break
                first = False
                calls = log.read()
                new, seen = sorted(calls[seen:]), len(calls)
                if part is None:
                    steps.append(["final", new, mapsym.results_obs(req, r)])
                else:
                    store = {o: r[o].store for f in req["funcs"] for o in f["outs"]}
                    steps.append(["part", new, _mask_obs(req, store), _none_pattern(req, r)])
        return steps


def _learner_store(lrn):
    return lrn.learner._original_function.keywords["store"]


def run_learners(c):
    import adaptive
    from pipefunc.map.adaptive import create_learners

    req = c["req"]
    log = mapsym.CallLog()
    with _quiet():
        try:
            p = mapsym.build_pipeline(req, log)
        except Exception as e:  # noqa: BLE001
            return ["build", Err(e)]
        with mapsym.TempRun() as d:
            try:
                L = create_learners(p, mapsym.map_inputs(req), d, internal_shapes=mapsym.internal_arg(req),
                                    storage=req.get("storage", "dict"), split_independent_axes=c["split"],
                                    fixed_indices=None if c.get("fixed") is None else _fixed(c["fixed"]))
            except Exception as e:  # noqa: BLE001
                return ["create", Err(e)]
            # canonical structure: keys in creation order, generations, learners sorted by function name
            struct, table = [], []
            for key, gens in L.items():
                kobs = [] if key is None else [[a.axis, _sel_obs(a.idx)] for a in key]
                gobs, gtab = [], []
                for gen in gens:
                    srt = sorted(gen, key=lambda l: l.pipefunc.__name__)
                    gobs.append([[l.pipefunc.__name__, [-1 if x is None else int(x) for x in l.learner.sequence]] for l in srt])
                    gtab.append(srt)
                struct.append([kobs, gobs])
                table.append(gtab)
            store = None
            try:
                for (ki, gi, li) in c["order"]:
                    if ki >= len(table) or gi >= len(table[ki]) or li >= len(table[ki][gi]):
                        continue
                    lrn = table[ki][gi][li]
                    store = _learner_store(lrn)
                    if c["driver"] == "simple":
                        adaptive.runner.simple(lrn.learner)
                    else:
                        seq = list(lrn.learner.sequence)
                        if c.get("rev"):
                            seq = seq[::-1]
                        for x in seq:
                            lrn.learner._original_function(x)
            except Exception as e:  # noqa: BLE001
                return ["run", struct, Err(e), len(log.read())]
            if store is None:
                store = _learner_store(table[0][0][0])
            masks = _mask_obs(req, store)
            stored = []
            for f in req["funcs"]:
                for o in f["outs"]:
                    st = store[o]
                    if hasattr(st, "to_array"):
                        stored.append([o, mapsym.arr_obs(st.to_array())])
                    elif hasattr(st, "is_file"):
                        from pipefunc._utils import load
                        stored.append([o, mapsym.arr_obs(load(st)) if st.is_file() else ["missing"]])
                    else:
                        stored.append([o, mapsym.arr_obs(st.value) if st.exists() else ["missing"]])
            return ["ok", struct, sorted(log.read()), masks, stored]


def _sel_obs(x):
    if isinstance(x, slice):
        return ["s", x.start, x.stop, x.step]
    return int(x)


VALS = [None] + list(range(-4, 5))


def run_range(c):
    n = c["n"]
    out = []
    for a, b, s in itertools.product(VALS, VALS, VALS):
        try:
            out.append(list(range(*slice(a, b, s).indices(n))))
        except ValueError:
            out.append(Err("ValueError"))
    ints = []
    lst = list(range(n))
    for k in range(-6, 7):
        try:
            ints.append(lst[k])
        except IndexError:
            ints.append(Err("IndexError"))
    return [out, ints]


@contextlib.contextmanager
def managed_managers():
    """SharedMemoryDictArray starts one multiprocessing.Manager per array and never shuts it down (the interpreter
    then hangs at exit): record the managers created inside the block and shut them down afterwards."""
    import multiprocessing

    real = multiprocessing.Manager
    made = []

    def manager(*a, **k):
        m = real(*a, **k)
        made.append(m)
        return m

    multiprocessing.Manager = manager
    try:
        yield made
    finally:
        multiprocessing.Manager = real
        for m in made:
            with contextlib.suppress(Exception):
                m.shutdown()


def run_impl(c):
    k = c["kind"]
    if k == "parts":
        with managed_managers():
            return run_parts(c)
    if k == "learners":
        with managed_managers():
            return run_learners(c)
    if k == "range":
        return run_range(c)
    if k == "link":
        return True   # the two models must agree (the comparison itself is computed in Coq)
    raise ValueError(k)


# ------------------------------------------------------------------ Coq literals
def _oz(x):
    return copt(x, cz)


def sel_lit(sel):
    if isinstance(sel, int):
        return f"(FInt {cz(sel)})"
    return f"(FSlice {_oz(sel[1])} {_oz(sel[2])} {_oz(sel[3])})"


def fixed_lit(part):
    return clist([cpair(cstr(a), sel_lit(s_)) for a, s_ in part])


def req_lit(req):
    return "{| q_funcs := %s; q_inputs := %s; q_internal := %s |}" % (
        clist([mapgen.func_lit(f) for f in req["funcs"]]), mapgen._env(req["inputs"]),
        mapgen.shapes_lit(req.get("internal")))


def emit_case(c) -> str:
    k = c["kind"]
    if k == "parts":
        return f"(CParts {req_lit(c['req'])} {clist([fixed_lit(p) for p in c['parts']])})"
    if k == "learners":
        order = clist(["(%s, %s, %s)" % (cnat(a), cnat(b), cnat(d)) for a, b, d in c["order"]])
        return f"(CLearners {req_lit(c['req'])} {cbool(c['split'])} {order} {cbool(bool(c.get('rev')) and c['driver'] != 'simple')})"
    if k == "range":
        return f"(CRange {cnat(c['n'])})"
    if k == "link":
        return f"(CLink {req_lit(c['req'])})"
    raise ValueError(k)


# ------------------------------------------------------------------ generators
def sorted_like_pipeline(req):
    """Reorder req['funcs'] into pipefunc's own execution order (generation by generation)."""
    with _quiet():
        try:
            p = mapsym.build_pipeline(req, mapsym.CallLog())
            names = [f.__name__ for f in p.sorted_functions]
        except Exception:  # noqa: BLE001
            return req
    by = {f["name"]: f for f in req["funcs"]}
    if sorted(names) != sorted(by):
        return req
    req = dict(req)
    req["funcs"] = [by[n] for n in names]
    return req


def gen_malformed_part(rng, req):
    """One fixed_indices request that must be rejected, or None."""
    sizes = root_axes(req)
    kinds = ["unknown"]
    if sizes:
        kinds += ["oor", "oor", "oor_neg"]
    if internal_axes(req):
        kinds += ["oor_internal"]
    k = rng.choice(kinds)
    if k == "unknown":
        part = [[rng.choice(["zz", "q", "i_"]), rng.choice([0, ["s", None, None, None]])]]
    elif k == "oor":
        a = rng.choice(sorted(sizes))
        part = [[a, sizes[a] + rng.choice([0, 0, 1, 3])]]
    elif k == "oor_neg":
        a = rng.choice(sorted(sizes))
        part = [[a, -sizes[a] - rng.choice([1, 1, 2])]]
    else:
        ia = internal_axes(req)
        a = rng.choice(sorted(ia))
        part = [[a, rng.choice([ia[a], ia[a] + 1, -ia[a] - 1])]]
    others = [x for x in sorted(sizes) if x != part[0][0]]
    if others and rng.random() < 0.3:  # together with a valid component
        b = rng.choice(others)
        part.append([b, rng.randrange(sizes[b])])
        rng.shuffle(part)
    return part, k


def gen_parts_case(rng, small=False):
    for _ in range(50):
        req = sorted_like_pipeline(gen_req(rng, small=small))
        axes = root_axes(req)
        if not axes:
            continue
        good = sorted(set(axes) - reduced_axes_py(req))
        r = rng.random()
        if not good and r >= 0.18 and rng.random() < 0.85:
            continue
        if r < 0.18:
            bad, k = gen_malformed_part(rng, req)
            parts = []
            if rng.random() < 0.5:
                pre, _ = gen_parts(rng, req, sorted(axes))
                if pre:
                    parts = pre[:1]
            return {"kind": "parts", "req": req, "parts": parts + [bad], "tag": "bad-" + k}
        pool = good if (good and rng.random() < 0.9) else sorted(axes)
        parts, kind = gen_parts(rng, req, pool)
        if parts is None:
            continue
        if any(a in reduced_axes_py(req) for p_ in parts for a, _ in p_):
            kind = "reduced-" + kind
        return {"kind": "parts", "req": req, "parts": parts, "tag": kind}
    raise RuntimeError("no request with root axes")


def _learner_shape(req, split):
    """The structure of the learners (keys x generations x learners) as the implementation creates them."""
    from pipefunc.map.adaptive import create_learners

    with _quiet(), mapsym.TempRun() as d, managed_managers():
        try:
            p = mapsym.build_pipeline(req, mapsym.CallLog())
            L = create_learners(p, mapsym.map_inputs(req), d, internal_shapes=mapsym.internal_arg(req),
                                storage=req.get("storage", "dict"), split_independent_axes=split)
            return [[len(g) for g in gens] for gens in L.values()]
        except Exception:  # noqa: BLE001
            return None


def gen_order(rng, shape, mode):
    """An execution order of all learners that respects the generations of every key."""
    if mode == "keywise":
        return [(k, g, l) for k, gens in enumerate(shape) for g, n in enumerate(gens) for l in range(n)]
    if mode == "genwise":
        out = []
        for g in range(max((len(gens) for gens in shape), default=0)):
            for k, gens in enumerate(shape):
                if g < len(gens):
                    out += [(k, g, l) for l in range(gens[g])]
        return out
    if mode in ("keys-reversed", "keys-shuffled"):
        # key by key (every key is self-contained: generations only order the learners of ONE key), keys permuted
        keys = list(range(len(shape)))
        if mode == "keys-reversed":
            keys.reverse()
        else:
            rng.shuffle(keys)
        out = []
        for k in keys:
            for g, n in enumerate(shape[k]):
                ls = list(range(n))
                rng.shuffle(ls)
                out += [(k, g, l) for l in ls]
        return out
    # random interleaving of the keys' chains, random order inside each generation
    pos = [0] * len(shape)
    out = []
    live = [k for k, gens in enumerate(shape) if gens]
    while live:
        k = rng.choice(live)
        g = pos[k]
        ls = list(range(shape[k][g]))
        rng.shuffle(ls)
        out += [(k, g, l) for l in ls]
        pos[k] += 1
        if pos[k] >= len(shape[k]):
            live.remove(k)
    return out


def has_axis_free_producer(req):
    """Some function that is not mapped over any root axis (no MapSpec inputs) feeds a mapped function."""
    free = {o for f in req["funcs"] if not (f.get("spec") and f["spec"]["i"]) for o in f["outs"]}
    return any(f.get("spec") and f["spec"]["i"] and free & set(f["params"]) for f in req["funcs"])


def gen_learners_case(rng, small=False):
    want_free = rng.random() < 0.35   # a shared upstream function + split keys: every key must be self-contained
    for attempt in range(400):
        if attempt == 150:
            want_free = False
        req = sorted_like_pipeline(gen_req(rng, small=small))
        if want_free and not has_axis_free_producer(req):
            continue
        split = True if want_free else rng.random() < 0.6
        shape = _learner_shape(req, split)
        if want_free and (shape is None or len(shape) < 2):
            continue
        if shape is None:
            if rng.random() < 0.15:  # keep a few creation failures (reduced independent axis)
                return {"kind": "learners", "req": req, "split": split, "order": [], "driver": "simple", "rev": False,
                        "tag": "create-fails"}
            continue
        if sum(sum(g) for g in shape) > 40:
            continue
        modes = ["keywise", "genwise", "random", "random"]
        if len(shape) > 1:
            modes += ["keys-reversed", "keys-shuffled", "keys-shuffled", "random"]
        mode = rng.choice(modes)
        driver = rng.choice(["simple", "loop", "loop"])
        return {"kind": "learners", "req": req, "split": split, "order": gen_order(rng, shape, mode),
                "driver": driver, "rev": driver == "loop" and rng.random() < 0.5, "tag": f"{mode}-{driver}"}
    raise RuntimeError("no learner case")


def generate(rng, tier, mult):
    out = [{"kind": "range", "n": n} for n in range(5)]
    n_parts = (230 if tier == "quick" else 2500) * mult
    n_learn = (100 if tier == "quick" else 1200) * mult
    for _ in range(n_parts):
        out.append(gen_parts_case(rng, small=rng.random() < 0.5))
    if tier != "quick":
        # every order of the parts for families of <= 3 parts
        extra = []
        for c in out:
            if c["kind"] == "parts" and 2 <= len(c["parts"]) <= 3 and c["tag"] in ("partition", "overlap") and len(extra) < 1500:
                for perm in list(itertools.permutations(c["parts"]))[1:]:
                    d = dict(c)
                    d["parts"] = [list(p) for p in perm]
                    d["tag"] = c["tag"] + "-perm"
                    extra.append(d)
        out += extra
    for _ in range(n_learn):
        out.append(gen_learners_case(rng, small=rng.random() < 0.5))
    for _ in range((60 if tier == "quick" else 1500) * mult):
        out.append({"kind": "link", "req": sorted_like_pipeline(gen_req(rng, max_funcs=4))})
    return out


def nontrivial_key(c):
    if c["kind"] in ("range", "link"):
        return None
    specs = [mapsym.spec_str(f.get("spec")) for f in c["req"]["funcs"]]
    shapes = [v["sh"] if isinstance(v, dict) else 0 for _, v in c["req"]["inputs"]]
    if c["kind"] == "parts":
        if len(c["parts"]) < 2:
            return None
        return ("parts", specs, shapes, c["parts"], c["req"].get("storage"))
    return ("learners", specs, shapes, c["split"], c["order"], c["driver"], c["req"].get("storage"))


def distribution(c):
    if c["kind"] in ("range", "link"):
        return {"kind": c["kind"]}
    d = {"kind": c["kind"], "tag": c.get("tag"), "storage": c["req"].get("storage"), "nfuncs": len(c["req"]["funcs"]),
         "internal_before_mapped": not internal_after_mapped(c["req"])}
    if c["kind"] == "parts":
        d["nparts"] = len(c["parts"])
        d["naxes"] = len({a for p in c["parts"] for a, _ in p})
        d["neg_step"] = any(not isinstance(s_, int) and (s_[3] or 1) < 0 for p in c["parts"] for _, s_ in p)
        d["neg_int"] = any(isinstance(s_, int) and s_ < 0 for p in c["parts"] for _, s_ in p)
    else:
        d["split"] = c["split"]
    return d


def finding_id(c, impl_obs, kind):
    return None


def shrink(c):
    out = []
    if c["kind"] == "parts":
        for j in range(len(c["parts"])):
            d = dict(c)
            d["parts"] = c["parts"][:j] + c["parts"][j + 1:]
            out.append(d)
    if c["kind"] in ("parts", "learners"):
        fs = c["req"]["funcs"]
        for j in range(len(fs) - 1, -1, -1):
            produced = set(fs[j]["outs"])
            if any(produced & set(g["params"]) for g in fs[j + 1:]):
                continue
            if len(fs) == 1:
                continue
            d = json.loads(json.dumps(c))
            d["req"]["funcs"] = fs[:j] + fs[j + 1:]
            used = {p for g in d["req"]["funcs"] for p in g["params"]}
            d["req"]["inputs"] = [kv for kv in d["req"]["inputs"] if kv[0] in used]
            if c["kind"] == "learners":
                shape = _learner_shape(d["req"], d["split"])
                if shape is None:
                    continue
                d["order"] = gen_order(None, shape, "keywise")
            out.append(d)
    return out
