"""C07 - Every storage backend behaves as a masked n-d object array.

Drives the REAL FileArray / DictArray / SharedMemoryDictArray objects (temp folders, deleted after each case) through
operation sequences and canonicalises every output; the Coq side (Corr/Run_C07.v) runs the line-by-line models
StoreFile / StoreDict on the same sequence and judges the implementation's outputs against the abstract reference
MaskedNd (spec_ok).  Cases of the kinds slicetab / normtab / cart / unravel are the per-run table comparison of the
Python-semantics definitions in Base/PySlice.v and Base/Index.v with CPython / NumPy.
"""
from __future__ import annotations

import atexit
import itertools
import shutil
import tempfile
from pathlib import Path

from ..coqlit import Err, Ok, cbool, clist, cnat, cstr

PROP = "C07"
RUN = "Run_C07"
THEOREMS = "Props/C07.v"
ANCHORS = [
    ("pipefunc/map/_storage_array/_base.py", ["iterate_shape_indices", "select_by_mask", "StorageBase", "normalize_key"]),
    ("pipefunc/map/_storage_array/_file.py", ["FileArray", "_load_all"]),
    ("pipefunc/map/_storage_array/_dict.py", ["DictArray", "_masked_empty", "SharedMemoryDictArray"]),
    ("pipefunc/map/_mapspec.py", ["shape_to_strides"]),
]
RULE = ("all 259 geometries (full shapes of rank 0..3 with sizes 1..3 x all 2^rank external/internal masks) x the three "
        "importable backends; operation sequences: exhaustive over a per-geometry alphabet (all in-range int dumps, "
        "slice / negative / out-of-range / wrong-rank keys, every read operation, persist-reopen) up to length 2 (3 in "
        "the thorough tier) for geometries with <= 4 elements, random up to length 12 otherwise; keys from ints in "
        "[-size-1, size], slices with a,b in None,-4..4 and steps None,1,2,3,-1,-2,0, wrong-rank tuples, bare ints; "
        "element values: distinct ints, and in ~40% of the dumps the value None, 0 and '' (scalars and members of "
        "internal arrays; list / ndarray / object ndarray); a dedicated stream per geometry: dump, persist+reopen, dump "
        "again onto an existing index, persist+reopen, read; another one: store None / 0 / '' and read every cell back; "
        "non-trivial = a store case with at least one accepted dump followed by a read; distinct by (backend, geometry, ops)")
ASSUMPTIONS = [
    "only the three importable backends (file_array, dict, shared_memory_dict); zarr backends cannot be imported here",
    "values passed to dump have the internal shape (a scalar when internal_shape == ()); elements are ints (incl. 0), "
    "the Python value None (a value, distinct from masked) and strings (incl. ''); ints and strings are mixed in one "
    "internal array only when it is an object ndarray (np.asarray of a mixed list is NumPy coercion, not storage)",
    "every axis size >= 1; linear indices of has_index/get_from_index are in [0, size)",
    "get_from_index of a missing element must raise; the exception class is not fixed by the property "
    "(FileNotFoundError for FileArray, KeyError for DictArray)",
    "pickle/cloudpickle round trips are the identity on the stored values; the file system is a finite map",
    "a zero slice step raises ValueError (NumPy reference behaviour) unless the key is also out of range / wrong rank",
]
TRUSTED = [
    "Model/Store.v mirrors _storage_array/{_base,_file,_dict}.py by hand; tie = per-run differential execution",
    "Base/PySlice.v (slice.indices, range, itertools.product) and Base/Index.v (unravel_index, strides) are definitions "
    "of Python/NumPy semantics, compared exhaustively with CPython/NumPy on small domains on every run",
    "canonicalisation in harness/props/c07.py: MaskedArray / object ndarray containing np.ma.masked / nested lists "
    "-> (shape, flat cells)",
]

BACKENDS = ["file", "dict", "shm"]
MASKED = []  # canonical marker of a masked cell (an empty list)

_state = {"base": None, "n": 0, "mgr": None}


def _base_dir() -> Path:
    if _state["base"] is None:
        _state["base"] = Path(tempfile.mkdtemp(prefix="c07_"))
        atexit.register(_cleanup)
    return _state["base"]


def _cleanup():
    if _state["base"] is not None:
        shutil.rmtree(_state["base"], ignore_errors=True)
    if _state["mgr"] is not None:
        try:
            _state["mgr"].shutdown()
        except Exception:  # noqa: BLE001
            pass


def _manager():
    if _state["mgr"] is None:
        import multiprocessing

        _state["mgr"] = multiprocessing.Manager()
    return _state["mgr"]


# ------------------------------------------------------------------ canonical outputs
def _elem(x):
    import numpy as np

    if x is np.ma.masked:
        return MASKED
    if x is None:
        return None
    if isinstance(x, (bool, np.bool_)):
        return bool(x)
    if isinstance(x, (int, np.integer)):
        return int(x)
    if isinstance(x, str):  # incl. np.str_
        return str(x)
    raise TypeError(f"unexpected element {type(x)}: {x!r}")


def _nested_shape(x):
    if isinstance(x, (list, tuple)):
        if not x:
            return [0]
        sub = _nested_shape(x[0])
        return [len(x)] + sub
    return []


def _nested_flat(x, out):
    if isinstance(x, (list, tuple)):
        for y in x:
            _nested_flat(y, out)
    else:
        out.append(_elem(x))


def canon(x):
    """MaskedArray, object ndarray containing np.ma.masked, nested lists, scalars -> [shape, flat cells]."""
    import numpy as np

    if x is np.ma.masked:
        return [[], [MASKED]]
    if isinstance(x, np.ma.MaskedArray):
        mask = np.ma.getmaskarray(x)
        data = np.asarray(x.data)
        flat = [MASKED if m else _elem(d) for d, m in zip(data.reshape(-1).tolist() if data.dtype != object
                                                            else list(data.reshape(-1)), mask.reshape(-1))]
        return [list(x.shape), flat]
    if isinstance(x, np.ndarray):
        items = list(x.reshape(-1)) if x.dtype == object else x.reshape(-1).tolist()
        return [list(x.shape), [_elem(d) for d in items]]
    if isinstance(x, (list, tuple)):
        flat = []
        _nested_flat(x, flat)
        return [_nested_shape(x), flat]
    return [[], [_elem(x)]]


# ------------------------------------------------------------------ implementation driver
def _mk_key(items, bare):
    ks = tuple(slice(*k[1:]) if isinstance(k, list) else k for k in items)
    if bare and len(ks) == 1:
        return ks[0]
    return ks


def _reshape(flat, shape):
    if not shape:
        return flat[0]
    if len(shape) == 1:
        return list(flat)
    step = len(flat) // shape[0]
    return [_reshape(flat[i * step:(i + 1) * step], shape[1:]) for i in range(shape[0])]


def _mk_value(flat, ishape, form):
    import numpy as np

    v = _reshape(flat, ishape)
    if not ishape:
        return v
    if form == "nd":
        return np.array(v)
    if form == "ndobj":
        a = np.empty(ishape, dtype=object)
        for idx in itertools.product(*map(range, ishape)):
            w = v
            for i in idx:
                w = w[i]
            a[idx] = w
        return a
    return v


def _open(backend, folder, ext, ish, mask, own_manager=False):
    from pipefunc.map._storage_array._dict import DictArray, SharedMemoryDictArray
    from pipefunc.map._storage_array._file import FileArray

    if backend == "file":
        return FileArray(folder, tuple(ext), tuple(ish), tuple(mask))
    if backend == "dict":
        return DictArray(folder, tuple(ext), tuple(ish), tuple(mask))
    mapping = None if own_manager else _manager().dict()
    return SharedMemoryDictArray(folder, tuple(ext), tuple(ish), tuple(mask), mapping=mapping)


def _res(f):
    try:
        return f()
    except Exception as e:  # noqa: BLE001
        return Err(e)


def run_store(c):
    _state["n"] += 1
    folder = _base_dir() / f"s{_state['n']}" / "arr"
    try:
        arr = _open(c["b"], folder, c["ext"], c["int"], c["mask"], c.get("own", False))
        outs = []
        for op in c["ops"]:
            k = op[0]
            if k == "dump":
                key, val = _mk_key(op[1], op[4]), _mk_value(op[2], c["int"], op[3])
                outs.append(_res(lambda: arr.dump(key, val)))
            elif k == "get":
                key = _mk_key(op[1], op[2])
                outs.append(_res(lambda: canon(arr[key])))
            elif k == "to_array":
                outs.append(_res(lambda: canon(arr.to_array())))
            elif k == "mask":
                outs.append(_res(lambda: canon(arr.mask)))
            elif k == "mask_linear":
                outs.append(_res(lambda: [bool(b) for b in arr.mask_linear()]))
            elif k == "has":
                outs.append(_res(lambda: bool(arr.has_index(op[1]))))
            elif k == "getidx":
                outs.append(_res(lambda: canon(arr.get_from_index(op[1]))))
            elif k == "reopen":
                def f():
                    nonlocal arr
                    arr.persist()
                    arr = _open(c["b"], folder, c["ext"], c["int"], c["mask"], c.get("own", False))
                outs.append(_res(f))
            else:
                raise ValueError(k)
        return outs
    finally:
        shutil.rmtree(folder.parent, ignore_errors=True)


def run_impl(c):
    import numpy as np

    k = c["kind"]
    if k == "store":
        return run_store(c)
    if k == "slicetab":
        def one(n):
            try:
                return Ok(list(range(*slice(c["a"], c["b"], c["c"]).indices(n))))
            except Exception as e:  # noqa: BLE001
                return Err(e)
        return [one(n) for n in range(6)]
    if k == "normtab":
        n = c["n"]
        # the definition in normalize_key
        def norm(z):
            nk = z if z >= 0 else z + n
            return Ok(nk) if 0 <= nk < n else Err("IndexError")
        return [norm(z) for z in range(-7, 8)]
    if k == "cart":
        return [list(t) for t in itertools.product(*c["ls"])]
    if k == "unravel":
        from pipefunc.map._mapspec import shape_to_strides
        from pipefunc.map._storage_array._base import iterate_shape_indices

        sh = tuple(c["sh"])
        n = int(np.prod(sh, dtype=int)) if sh else 1
        return [[[int(x) for x in np.unravel_index(i, sh)] for i in range(n)],
                [list(t) for t in iterate_shape_indices(sh)],
                [int(x) for x in shape_to_strides(sh)]]
    raise ValueError(k)


# ------------------------------------------------------------------ Coq literals
def _oz(x):
    return "None" if x is None else f"(Some ({x}))" if x < 0 else f"(Some {x})"


def _kitem(k):
    if isinstance(k, list):
        return f"Ks {_oz(k[1])} {_oz(k[2])} {_oz(k[3])}"
    return f"Ki ({k})" if k < 0 else f"Ki {k}"


def _key_lit(items):
    return "[" + ";".join(_kitem(k) for k in items) + "]"


def _nats(l):
    return "[" + ";".join(str(x) for x in l) + "]%nat"


def _elem_lit(x):
    if x is None:
        return "EN"
    if isinstance(x, str):
        return f"ES {cstr(x)}"
    return f"EI ({x})" if x < 0 else f"EI {x}"


def _op_lit(op):
    k = op[0]
    if k == "dump":
        return f"Dump {_key_lit(op[1])} [{';'.join(_elem_lit(x) for x in op[2])}]"
    if k == "get":
        return f"Get {_key_lit(op[1])}"
    if k == "has":
        return f"Has {op[1]}"
    if k == "getidx":
        return f"GetIdx {op[1]}"
    return {"to_array": "ToArray", "mask": "Mask", "mask_linear": "MaskLinear", "reopen": "PersistReopen"}[k]


def emit_case(c) -> str:
    k = c["kind"]
    if k == "store":
        b = {"file": "BFile", "dict": "BDict", "shm": "BShm"}[c["b"]]
        return (f"(CStore {b} {_nats(c['ext'])} {_nats(c['int'])} {clist([cbool(m) for m in c['mask']])} "
                f"[{'; '.join(_op_lit(o) for o in c['ops'])}])%Z")
    if k == "slicetab":
        return f"(CSliceTab {_oz(c['a'])} {_oz(c['b'])} {_oz(c['c'])})%Z"
    if k == "normtab":
        return f"(CNormTab {cnat(c['n'])})"
    if k == "cart":
        return f"(CCart [{'; '.join(_nats(l) for l in c['ls'])}])"
    if k == "unravel":
        return f"(CUnravel {_nats(c['sh'])})"
    raise ValueError(k)


# ------------------------------------------------------------------ generators
def all_geometries():
    out = []
    for r in (0, 1, 2, 3):
        for full in itertools.product((1, 2, 3), repeat=r):
            for mask in itertools.product((True, False), repeat=r):
                ext = [d for d, m in zip(full, mask) if m]
                ish = [d for d, m in zip(full, mask) if not m]
                out.append((ext, ish, list(mask)))
    return out


def _prod(l):
    n = 1
    for d in l:
        n *= d
    return n


def _full(ext, ish, mask):
    e, i = iter(ext), iter(ish)
    return [next(e) if m else next(i) for m in mask]


SLICE_AB = [None, None, None, 0, 1, 2, 3, 4, -1, -2, -3, -4]
SLICE_C = [None, None, None, 1, 2, 3, -1, -1, -2]


def gen_item(rng, size, p_slice=0.3, p_bad=0.06):
    if rng.random() < p_slice:
        c = 0 if rng.random() < 0.03 else rng.choice(SLICE_C)
        return ["s", rng.choice(SLICE_AB), rng.choice(SLICE_AB), c]
    if rng.random() < p_bad:
        return rng.choice([size, -size - 1])
    return rng.randrange(-size, size)


def gen_key(rng, sizes, p_slice=0.3, p_bad=0.06, p_rank=0.05):
    items = [gen_item(rng, d, p_slice, p_bad) for d in sizes]
    if rng.random() < p_rank:
        if items and rng.random() < 0.5:
            items.pop(rng.randrange(len(items)))
        else:
            items.insert(rng.randrange(len(items) + 1), gen_item(rng, 2, p_slice, 0))
    bare = len(items) == 1 and rng.random() < 0.3
    return items, bare


class Fresh:
    """Distinct element values, so that every dump is distinguishable."""

    def __init__(self):
        self.n = 0

    def value(self, ish):
        self.n += 1
        return [self.n * 10 + j if _prod(ish) <= 10 else self.n * 100 + j for j in range(_prod(ish))]


STRS = ["", "", "a", "bc"]


def spice(rng, vals, ish, p=0.4):
    """Replace elements of a fresh int value by the Python value None (a VALUE, not a missing element) and by falsy
    non-None values (0, ""), for scalars and for members of internal arrays.  Returns (values, allowed forms): ints and
    strings are only mixed in an object array (np.asarray of a mixed list would turn the ints into strings)."""
    forms = ["list", "nd", "ndobj"]
    if rng.random() >= p:
        return vals, forms
    vals = list(vals)
    n = len(vals)
    some = lambda: rng.sample(range(n), rng.randint(1, n))
    mode = rng.choice(["none", "none", "none_all", "zero", "str", "str_none", "mixed"])
    if mode == "none":
        for j in some():
            vals[j] = None
    elif mode == "none_all":
        vals = [None] * n
    elif mode == "zero":
        for j in some():
            vals[j] = 0
        if rng.random() < 0.4:
            vals[rng.randrange(n)] = None
    elif mode == "str":
        vals = [rng.choice(STRS) for _ in range(n)]
    elif mode == "str_none":
        vals = [rng.choice(STRS + [None, None]) for _ in range(n)]
    else:
        vals = [rng.choice([v, None, 0, "", "a"]) for v in vals]
        if ish:
            forms = ["ndobj"]
    return vals, forms


def gen_value(rng, fresh, ish, p=0.4):
    vals, forms = spice(rng, fresh.value(ish), ish, p)
    return vals, rng.choice(forms)


def gen_op(rng, geo, fresh, malformed=False):
    ext, ish, mask = geo
    full = _full(ext, ish, mask)
    size = _prod(ext)
    r = rng.random()
    if r < 0.36:
        key, bare = gen_key(rng, ext, p_slice=0.2)
        vals, form = gen_value(rng, fresh, ish)
        return ["dump", key, vals, form, bare]
    if r < 0.68:
        key, bare = gen_key(rng, full, p_slice=0.35)
        return ["get", key, bare]
    if r < 0.74:
        return ["to_array"]
    if r < 0.78:
        return ["mask"]
    if r < 0.84:
        return ["mask_linear"]
    if r < 0.90:
        return ["has", rng.randrange(size) if not (malformed and rng.random() < 0.3) else size + rng.randrange(2)]
    if r < 0.95:
        return ["getidx", rng.randrange(size) if not (malformed and rng.random() < 0.3) else size + rng.randrange(2)]
    return ["reopen"]


def alphabet(geo, fresh):
    """A per-geometry operation alphabet for the exhaustive enumeration on tiny geometries."""
    ext, ish, mask = geo
    full = _full(ext, ish, mask)
    size = _prod(ext)
    ops = []
    for e in itertools.product(*map(range, ext)):
        ops.append(["dump", list(e), fresh.value(ish), "list", False])
    if ext:
        ops.append(["dump", [-1] * len(ext), fresh.value(ish), "nd", False])
        ops.append(["dump", [["s", None, None, None]] * len(ext), fresh.value(ish), "list", False])
        ops.append(["dump", [ext[0]] + [0] * (len(ext) - 1), fresh.value(ish), "list", False])  # out of range
    ops.append(["dump", [0] * (len(ext) + 1), fresh.value(ish), "list", False])  # wrong rank
    n = _prod(ish)
    ops.append(["dump", [0] * len(ext), [None] * n, "list", False])  # the VALUE None
    ops.append(["dump", [-1] * len(ext), ([0, None, ""] * n)[:n], "ndobj", False])  # falsy values
    for p in itertools.product(*map(range, full)):
        ops.append(["get", list(p), False])
    ops.append(["get", [["s", None, None, None]] * len(full), False])
    if full:
        ops.append(["get", [["s", None, None, -1]] + [-1] * (len(full) - 1), False])
        ops.append(["get", [full[0]] + [0] * (len(full) - 1), False])  # out of range
        ops.append(["get", [0] * (len(full) - 1), False])  # wrong rank
    else:
        ops.append(["get", [0], False])  # wrong rank
    ops += [["to_array"], ["mask"], ["mask_linear"], ["reopen"]]
    for i in range(size):
        ops.append(["has", i])
    ops.append(["getidx", 0])
    ops.append(["getidx", size - 1])
    return ops


def _alias(rng, e, ext):
    return [k - d if rng.random() < 0.4 else k for k, d in zip(e, ext)]


def redump_case(rng, geo, b):
    """dump; persist+reopen; dump again onto an index that already exists (no new index); persist+reopen; read."""
    ext, ish, mask = geo
    fresh = Fresh()
    size = _prod(ext)
    pos = [list(e) for e in itertools.product(*map(range, ext))]
    ops = []
    if ext and rng.random() < 0.3:
        vals, form = gen_value(rng, fresh, ish, 0.25)
        ops.append(["dump", [["s", None, None, None]] * len(ext), vals, form, False])
        present = pos
    else:
        present = rng.sample(pos, rng.randint(1, min(3, len(pos))))
        for e in present:
            vals, form = gen_value(rng, fresh, ish, 0.25)
            ops.append(["dump", _alias(rng, e, ext), vals, form, False])
    if rng.random() < 0.3:
        ops.append(rng.choice([["to_array"], ["mask_linear"], ["has", rng.randrange(size)]]))
    ops.append(["reopen"])
    for _ in range(rng.choice([1, 1, 2])):
        e = rng.choice(present)
        vals, form = gen_value(rng, fresh, ish, 0.25)
        ops.append(["dump", _alias(rng, e, ext), vals, form, False])
        if rng.random() < 0.25:
            ops.append(["get", _full_key(e, [0] * len(ish), mask), False])
    ops.append(["reopen"])
    lin = 0
    for k, d in zip(e, ext):
        lin = lin * d + k
    for j in itertools.product(*map(range, ish)):
        ops.append(["get", _full_key(e, list(j), mask), False])
        if rng.random() < 0.5:
            break
    ops += [["getidx", lin], ["to_array"]]
    if rng.random() < 0.5:
        ops.append(["get", [["s", None, None, None]] * len(mask), False])
    return store_case(b, geo, ops)


def falsy_case(rng, geo, b):
    """Store None / 0 / '' (whole values and members of internal arrays) and read every cell back in every way."""
    ext, ish, mask = geo
    n = _prod(ish)
    size = _prod(ext)
    pos = [list(e) for e in itertools.product(*map(range, ext))]
    ops = []
    chosen = rng.sample(pos, rng.randint(1, min(2, len(pos))))
    for e in chosen:
        kind = rng.choice(["none", "none", "zero", "empty", "mix"])
        vals = {"none": [None] * n, "zero": [0] * n, "empty": [""] * n,
                "mix": [rng.choice([None, 0, ""]) for _ in range(n)]}[kind]
        form = "ndobj" if kind == "mix" and ish else rng.choice(["list", "nd", "ndobj"])
        ops.append(["dump", _alias(rng, e, ext), vals, form, len(ext) == 1 and rng.random() < 0.3])
    if rng.random() < 0.3:
        ops.append(["reopen"])
    for e in chosen:
        for j in itertools.product(*map(range, ish)):
            ops.append(["get", _full_key(_alias(rng, e, ext), list(j), mask), len(mask) == 1 and rng.random() < 0.3])
            if len(ops) > 9:
                break
    lin = 0
    for k, d in zip(chosen[0], ext):
        lin = lin * d + k
    ops += [["has", lin], ["getidx", lin], ["get", [["s", None, None, None]] * len(mask), False], ["to_array"],
            ["mask_linear"]]
    return store_case(b, geo, ops)


def _full_key(e, j, mask):
    ei, ji = iter(e), iter(j)
    return [next(ei) if m else next(ji) for m in mask]


def store_case(b, geo, ops, own=False):
    c = {"kind": "store", "b": b, "ext": geo[0], "int": geo[1], "mask": geo[2], "ops": ops}
    if own:
        c["own"] = True
    return c


def table_cases():
    vals = [None] + list(range(-5, 6))
    cases = [{"kind": "slicetab", "a": a, "b": b, "c": c} for a in vals for b in vals for c in vals]
    cases += [{"kind": "normtab", "n": n} for n in range(6)]
    cases += [{"kind": "cart", "ls": ls} for ls in
              ([], [[]], [[1, 2]], [[0, 1], [5]], [[2, 0], [1, 3], [4]], [[1], [], [2]], [[0, 1, 2], [0, 1], [0, 1, 2]])]
    cases += [{"kind": "unravel", "sh": list(sh)} for r in range(0, 4) for sh in itertools.product((1, 2, 3), repeat=r)]
    return cases


def pre_checks(ctx):
    """The table comparison itself runs as ordinary correspondence cases (kinds slicetab/normtab/cart/unravel, generated
    on every run, see table_cases); here only the canonicaliser is sanity-checked."""
    import numpy as np

    a = np.ma.MaskedArray(np.array([1, 2, 3, 4], dtype=object).reshape(2, 2), mask=[[False, True], [False, False]])
    b = np.empty((2, 2), dtype=object)
    b[0, 0], b[0, 1], b[1, 0], b[1, 1] = 1, np.ma.masked, 3, 4
    want = [[2, 2], [1, MASKED, 3, 4]]
    if not (canon(a) == want and canon(b) == want and canon(np.ma.masked) == [[], [MASKED]]
            and canon([[1, 2], [3, 4]]) == [[2, 2], [1, 2, 3, 4]] and canon(5) == [[], [5]]):
        yield "canonicaliser self-test failed"


def generate(rng, tier, mult):
    cases = table_cases()
    geos = all_geometries()
    tiny = [g for g in geos if _prod(_full(*g)) <= 4]
    # ---- exhaustive sequences over the alphabet on tiny geometries
    if tier == "quick":
        chosen = rng.sample(tiny, 2 * mult)
        plan = [(g, 2, ["file", "dict"]) for g in chosen]
    else:
        # half of the tiny geometries per seed, backends alternating; one length-3 enumeration; a few on shared memory
        chosen = rng.sample(tiny, min(len(tiny), 55 * mult))
        plan = [(g, 2, [["file", "dict"][j % 2]]) for j, g in enumerate(chosen)]
        small = [g for g in tiny if len(alphabet(g, Fresh())) <= 16]
        plan += [(g, 3, [rng.choice(["file", "dict"])]) for g in rng.sample(small, min(len(small), mult))]
        plan += [(g, 2, ["shm"]) for g in rng.sample(tiny, 3)]
    for g, length, backends in plan:
        alpha = alphabet(g, Fresh())
        for b in backends:
            for seq in itertools.product(alpha, repeat=length):
                cases.append(store_case(b, g, list(seq)))
    # ---- random sequences on every geometry
    n_rand = (3 if tier == "quick" else 30) * mult
    for g in geos:
        for j in range(n_rand):
            b = BACKENDS[j % 3] if j % 6 != 5 else rng.choice(BACKENDS)
            fresh = Fresh()
            malformed = rng.random() < 0.15
            ops = [gen_op(rng, g, fresh, malformed) for _ in range(rng.randint(1, 12))]
            cases.append(store_case(b, g, ops))
    # ---- overwrite an existing index between two persists, then reopen (stale persisted data)
    for g in geos:
        for j in range((1 if tier == "quick" else 5) * mult):
            cases.append(redump_case(rng, g, ["dict", "shm", "dict", "file"][(j + len(g[0])) % 4] if tier != "quick"
                                     else rng.choice(["dict", "dict", "shm", "file"])))
    # ---- the values None / 0 / '' written and read back cell by cell
    for g in geos:
        for j in range(((1 if tier == "quick" else 4) + (0 if g[1] else 1)) * mult):  # one more for scalar elements
            cases.append(falsy_case(rng, g, rng.choice(["dict", "dict", "shm", "file"])))
    # ---- a few shared-memory arrays with their own manager process (the default constructor path)
    for g in rng.sample(geos, 3 if tier == "quick" else 12):
        fresh = Fresh()
        cases.append(store_case("shm", g, [gen_op(rng, g, fresh) for _ in range(6)] + [["reopen"], ["to_array"], ["mask_linear"]],
                                own=True))
    return cases


def nontrivial_key(c):
    if c["kind"] != "store":
        return None
    seen_dump = False
    for op in c["ops"]:
        if op[0] == "dump":
            seen_dump = True
        elif seen_dump and op[0] != "reopen":
            return (c["b"], c["ext"], c["int"], c["mask"], c["ops"])
    return None


def distribution(c):
    d = {"kind": c["kind"]}
    if c["kind"] == "store":
        d["backend"] = c["b"]
        d["rank"] = len(c["mask"])
        d["n_internal_axes"] = len(c["int"])
        d["len"] = min(len(c["ops"]), 12)
        d["none_value"] = any(op[0] == "dump" and None in op[2] for op in c["ops"])
        d["falsy_value"] = any(op[0] == "dump" and (0 in op[2] or "" in op[2]) for op in c["ops"])
        d["redump_between_persists"] = _redump(c["ops"])
    return d


def _redump(ops):
    """reopen ... dump ... reopen ... read, somewhere in the sequence"""
    st = 0
    for op in ops:
        if st == 0 and op[0] == "dump":
            st = 1
        elif st == 1 and op[0] == "reopen":
            st = 2
        elif st == 2 and op[0] == "dump":
            st = 3
        elif st == 3 and op[0] == "reopen":
            st = 4
        elif st == 4 and op[0] in ("get", "getidx", "to_array"):
            return True
    return False


def finding_id(c, impl_obs, kind):
    return None


def shrink(c):
    if c["kind"] != "store":
        return []
    out = []
    ops = c["ops"]
    for j in range(len(ops)):
        d = dict(c)
        d["ops"] = ops[:j] + ops[j + 1:]
        out.append(d)
    return out
