"""C08 - MapSpec parsing, printing, shapes and index maps are mutually consistent."""
from __future__ import annotations

import fcntl
import itertools
import re

from .. import common
from .. import translate_index as ti
from ..coqlit import Err, Ok, cbool, clist, cnat, copt, cpair, cstr

PROP = "C08"
RUN = "Run_C08"
THEOREMS = "Props/C08.v"
ANCHORS = [("pipefunc/map/_mapspec.py",
            ["shape_to_strides", "ArraySpec", "MapSpec", "_shape_to_key", "_parse_index_string",
             "_parse_indexed_arrays", "_validate_shapes", "_get_common_dim", "_get_output_dim",
             "validate_consistent_axes", "mapspec_axes", "mapspec_dimensions"]),
           ("pipefunc/map/_storage_array/_base.py", ["select_by_mask", "iterate_shape_indices"]),
           ("pipefunc/map/_shapes.py", ["external_shape_from_mask", "internal_shape_from_mask"])]
RULE = ("random well-formed MapSpecs (<=3 inputs, <=2 outputs, <=4 index names, rank<=3, ':' axes, scoped names, "
        "random whitespace) x shapes with sizes 0..4 x ALL linear indices, direct constructor calls, rename/add_axes, "
        "and malformed strings from mutation operators; lists of 1..4 MapSpecs sharing 2..5 array names (consistent, "
        "other rank / other index name in one occurrence, ':'-only dimensions) through validate_consistent_axes / "
        "mapspec_axes / mapspec_dimensions; direct calls of shape_to_strides / _shape_to_key / "
        "select_by_mask / external_shape_from_mask / internal_shape_from_mask on random shapes (sizes 0..4, rank <= 4), "
        "masks and tuples (exact, too short, too long); plus the translator obligations: these five functions and "
        "MapSpec.output_key / input_keys are re-translated from the source into coq/gen/Gen_Index.v and "
        "coq/gen/Check_Index.v (equality with the hand-written definitions for ALL inputs + transfer of the index "
        "theorems) is re-checked (8 cases of kind gen); non-trivial = >=2 index names or a ':' axis or a malformed "
        "string or an index call of rank >= 2 or a gen case; distinct by (kind, canonical spec, shapes)")
ASSUMPTIONS = ["ASCII identifiers only (Python's \\w / isidentifier are Unicode aware)",
               "rank >= 1 arrays for the print/parse round trip (the notation cannot write rank 0)"]
TRUSTED = ["Model/MapSpec.v mirrors pipefunc/map/_mapspec.py by hand; tie = per-run differential execution",
           "harness/translate_index.py (Python ast -> Gallina over Base/PyPrim.v: the meaning it gives to for/range/zip/"
           "append/generator expressions/`//`/`%`/indexing/dict; ints are nat because the translated functions use no "
           "subtraction; tuple[Any, ...] read as homogeneous; f-strings of ints/tuples do not raise; self.input_indices / "
           "external_indices / inputs are parameters whose values come from the hand-written model); validated "
           "dynamically by the direct-call cases (implementation vs Base/Index.v, which Check_Index.v proves equal to "
           "the translation)"]

NAMES = ["a", "b", "x", "y1", "_z", "s.a", "s.b", "long_name"]
INDICES = ["i", "j", "k", "l_1"]
WS = ["", " ", "  ", "\t"]


def _axes_lit(ax):
    return clist([copt(a, cstr) for a in ax])


def _raw_lit(raw):
    return clist([cpair(cstr(n), _axes_lit(ax)) for n, ax in raw])


def _shapes_lit(d):
    return clist([cpair(cstr(k), clist([cnat(x) for x in v])) for k, v in d])


def emit_case(c) -> str:
    k = c["kind"]
    if k == "parse":
        return f"(CParse {cstr(c['s'])})"
    if k == "build":
        return f"(CBuild {_raw_lit(c['i'])} {_raw_lit(c['o'])})"
    if k == "shape":
        return f"(CShape {_raw_lit(c['i'])} {_raw_lit(c['o'])} {_shapes_lit(c['ishapes'])} {_shapes_lit(c['internal'])})"
    if k == "keys":
        return f"(CKeys {_raw_lit(c['i'])} {_raw_lit(c['o'])} {clist([cnat(x) for x in c['sh']])})"
    if k == "rename":
        return f"(CRename {_raw_lit(c['i'])} {_raw_lit(c['o'])} {clist([cpair(cstr(a), cstr(b)) for a, b in c['ren']])})"
    if k == "add_axes":
        return f"(CAddAxes {_raw_lit(c['i'])} {_raw_lit(c['o'])} {_axes_lit(c['ax'])})"
    if k == "idx":
        nats = lambda l: clist([cnat(x) for x in l])   # noqa: E731
        bools = lambda l: clist([cbool(bool(x)) for x in l])   # noqa: E731
        f = c["f"]
        if f == "strides":
            return f"(CIdx (IndexOps.IStrides {nats(c['sh'])}))"
        if f == "key":
            return f"(CIdx (IndexOps.IKey {nats(c['sh'])} {cnat(c['n'])}))"
        if f == "select":
            return f"(CIdx (IndexOps.ISelect {bools(c['mask'])} {nats(c['e'])} {nats(c['i'])}))"
        if f == "ext":
            return f"(CIdx (IndexOps.IExt {nats(c['sh'])} {bools(c['mask'])}))"
        if f == "int":
            return f"(CIdx (IndexOps.IInt {nats(c['sh'])} {bools(c['mask'])}))"
        raise ValueError(f)
    if k == "gen":
        return f"(CGen {cstr(c['fn'])})"
    if k == "axes":
        return f"(CAxes {clist([cpair(_raw_lit(i), _raw_lit(o)) for i, o in c['specs']])})"
    raise ValueError(k)


# ------------------------------------------------------------------ translator obligation (coq/gen/Check_Index.v)
GEN_DIR = common.COQ / "gen"
COROLLARIES = "corollaries"
# obligation -> the theorem of Check_Index.v that closes it
OBLIGATION_THEOREM = {
    "shape_to_strides": "gen_shape_to_strides_eq",
    "_shape_to_key": "gen_shape_to_key_eq",
    "select_by_mask": "gen_select_by_mask_eq",
    "external_shape_from_mask": "gen_external_shape_from_mask_eq",
    "internal_shape_from_mask": "gen_internal_shape_from_mask_eq",
    "MapSpec.output_key": "gen_output_key_eq",
    "MapSpec.input_keys": "gen_input_keys_eq",
    COROLLARIES: "index_obligations",
}
_index = {}


def _coqc_gen(fname, timeout=300):
    return common.sh(["coqc", "-Q", "theories", "Verif", "-Q", "gen", "VerifGen", f"gen/{fname}"], timeout=timeout,
                     cwd=common.COQ)


def _proof_status(src, out, ok):
    """Per obligation: 'proved' | 'FAILED in <lemma>: <coq message>' | 'not checked (blocked by <lemma>)';
    second component: the obligation that owns the first failing lemma."""
    if ok:
        return {n: "proved" for n in OBLIGATION_THEOREM}, None
    heads = [(m.start(), m.group(1)) for m in
             re.finditer(r"^(?:Theorem|Lemma|Corollary|Definition)\s+([A-Za-z0-9_']+)", src, re.M)]
    line_of = lambda pos: src.count("\n", 0, pos) + 1   # noqa: E731
    m = re.search(r'File "[^"]*Check_Index\.v", line (\d+)', out)
    fail_line = int(m.group(1)) if m else 0
    failing = None
    for pos, name in heads:
        if line_of(pos) <= fail_line:
            failing = name
    msg = " ".join(out[m.end():].split()) if m else " ".join(out.split())[-200:]
    msg = (msg[msg.index("Error:"):] if "Error:" in msg else msg)[:200]
    failing = failing or "<import of the generated file>"
    order = [name for _, name in heads]
    status = {}
    prev_thm_idx = -1
    for obl, thm in OBLIGATION_THEOREM.items():
        if thm not in order:
            status[obl] = f"FAILED: theorem {thm} is missing from Check_Index.v"
            continue
        idx = order.index(thm)
        end_line = line_of(heads[idx + 1][0]) if idx + 1 < len(heads) else 10 ** 9
        if fail_line >= end_line:
            status[obl] = "proved"
        elif failing in order and prev_thm_idx < order.index(failing) <= idx:
            status[obl] = f"FAILED in {failing}: {msg}"
        else:
            status[obl] = f"not checked (blocked by {failing})"
        prev_thm_idx = idx
    owners = [o for o, v in status.items() if v.startswith("FAILED")]
    return status, (owners[0] if owners else failing)


def index_obligations():
    """Translate the source, write gen/Gen_Index.v, compile it and gen/Check_Index.v (once per process).
    Returns {"res": translator result per function, "proof": status per obligation, "failing": lemma or None,
             "infra": message or None}."""
    if _index:
        return _index
    res = ti.translate(common.REPO)
    infra, failing = None, None
    GEN_DIR.mkdir(exist_ok=True)
    with open(GEN_DIR / ".lock", "w") as lk:
        fcntl.flock(lk, fcntl.LOCK_EX)
        try:
            (GEN_DIR / "Gen_Index.v").write_text(ti.emit_coq(res, common.REPO))
            src = (GEN_DIR / "Check_Index.v").read_text()
            for f in ("Gen_Index.v", "Check_Index.v"):
                m = common.FORBIDDEN.search(common.strip_comments((GEN_DIR / f).read_text()))
                if m:
                    infra = f"forbidden construct {m.group(0)!r} in coq/gen/{f}"
            rc, out = _coqc_gen("Gen_Index.v")
            if rc != 0:
                # every emitted definition is built from typed combinators; an ill-typed translation means the
                # source left the subset in a way the translator's own type check missed: the obligation is broken
                proof = {n: "FAILED: generated coq/gen/Gen_Index.v does not compile: " + " ".join(out.split())[:160]
                         for n in OBLIGATION_THEOREM}
                failing = "Gen_Index.v"
            else:
                rc2, out2 = _coqc_gen("Check_Index.v")
                ok = rc2 == 0 and out2.count("Closed under the global context") == 1 and "Axioms:" not in out2
                if rc2 == 0 and not ok:
                    infra = infra or "coq/gen/Check_Index.v compiles but is not closed under the global context:\n" + out2[-800:]
                proof, failing = _proof_status(src, out2, ok)   # raw source: coqc reports raw line numbers
        finally:
            fcntl.flock(lk, fcntl.LOCK_UN)
    _index.update(res=res, proof=proof, failing=failing, infra=infra)
    return _index


def run_gen(c):
    o = index_obligations()
    fn = c["fn"]
    if fn == COROLLARIES:
        bad = [n for n in ti.NAMES if o["res"][n]["error"]]
        tr = "translated" if not bad else "untranslatable: " + ", ".join(bad)
    else:
        r = o["res"].get(fn)
        tr = "translated" if r and not r["error"] else "untranslatable: " + (r["error"] if r else "unknown function")
    return [tr, o["proof"].get(fn, "unknown obligation")]


def pre_checks(ctx):
    import os

    o = index_obligations()
    if o["infra"]:
        yield o["infra"]
    for prob in ti.selftest(common.REPO):      # the translator must keep rejecting out-of-subset variants of the source
        yield "harness/translate_index.py no longer fails closed: " + prob
    if ctx.get("tier") == "thorough" and not os.environ.get("VERIF_NO_COQCHK") and not o.get("chk_done") \
            and all(v == "proved" for v in o["proof"].values()):
        # independent re-check of the compiled obligations file and everything it depends on (as for Props/C08.v)
        o["chk_done"] = True
        with open(GEN_DIR / ".lock", "w") as lk:
            fcntl.flock(lk, fcntl.LOCK_EX)
            try:
                _coqc_gen("Gen_Index.v")
                _coqc_gen("Check_Index.v")
                rc, out = common.sh(["coqchk", "-silent", "-o", "-Q", "theories", "Verif", "-Q", "gen", "VerifGen",
                                     "VerifGen.Check_Index"], timeout=1500, cwd=common.COQ)
            finally:
                fcntl.flock(lk, fcntl.LOCK_UN)
        fields = re.findall(r"\* (?:Axioms|Constants/Inductives relying on type-in-type|Constants/Inductives relying on "
                            r"unsafe \(co\)fixpoints|Inductives whose positivity is assumed):\s*(\S+)", out)
        if rc != 0 or len(fields) != 4 or any(f != "<none>" for f in fields):
            o["proof"][COROLLARIES] = "FAILED: coqchk on VerifGen.Check_Index: " + " ".join(out.split())[-200:]


# ------------------------------------------------------------------ implementation driver
def _ms_obs(m):
    return [[[a.name, list(a.axes)] for a in m.inputs], [[a.name, list(a.axes)] for a in m.outputs]]


def _mk(i, o):
    from pipefunc.map._mapspec import ArraySpec, MapSpec

    return MapSpec(tuple(ArraySpec(n, tuple(ax)) for n, ax in i), tuple(ArraySpec(n, tuple(ax)) for n, ax in o))


def _res(f):
    try:
        return Ok(f())
    except Exception as e:  # noqa: BLE001
        return Err(e)


def _key_obs(d):
    return [[k, [":" if isinstance(x, slice) else int(x) for x in v]] for k, v in d.items()]


def run_idx(c):
    from pipefunc.map._mapspec import _shape_to_key, shape_to_strides
    from pipefunc.map._shapes import external_shape_from_mask, internal_shape_from_mask
    from pipefunc.map._storage_array._base import select_by_mask

    f = c["f"]
    ints = lambda t: [int(x) for x in t]   # noqa: E731
    if f == "strides":
        return _res(lambda: ints(shape_to_strides(tuple(c["sh"]))))
    if f == "key":
        return _res(lambda: ints(_shape_to_key(tuple(c["sh"]), c["n"])))
    if f == "select":
        return _res(lambda: ints(select_by_mask(tuple(bool(m) for m in c["mask"]), tuple(c["e"]), tuple(c["i"]))))
    if f == "ext":
        return _res(lambda: ints(external_shape_from_mask(tuple(c["sh"]), tuple(bool(m) for m in c["mask"]))))
    if f == "int":
        return _res(lambda: ints(internal_shape_from_mask(tuple(c["sh"]), tuple(bool(m) for m in c["mask"]))))
    raise ValueError(f)


def run_impl(c):
    from pipefunc.map._mapspec import MapSpec

    k = c["kind"]
    if k == "gen":
        return run_gen(c)
    if k == "idx":
        return run_idx(c)
    if k == "axes":
        from pipefunc.map._mapspec import mapspec_axes, mapspec_dimensions, validate_consistent_axes

        try:
            ms = [_mk(i, o) for i, o in c["specs"]]
        except Exception as e:  # noqa: BLE001
            return ["bad-case", Err(e)]
        return [_res(lambda: validate_consistent_axes(ms) or []),
                [[n, list(ax)] for n, ax in mapspec_axes(ms).items()],
                [[n, int(r)] for n, r in mapspec_dimensions(ms).items()]]
    if k == "parse":
        return _res(lambda: _ms_obs(MapSpec.from_string(c["s"])))
    if k == "build":
        def f():
            m = _mk(c["i"], c["o"])
            p = str(m)
            return [p, _res(lambda: _ms_obs(MapSpec.from_string(p)))]
        return _res(f)
    try:
        m = _mk(c["i"], c["o"])
    except Exception as e:  # noqa: BLE001
        return ["bad-case", Err(e)]
    if k == "shape":
        def f():
            sh, mask = m.shape({a: tuple(b) for a, b in c["ishapes"]}, {a: tuple(b) for a, b in c["internal"]})
            return [[int(x) for x in sh], [bool(x) for x in mask]]
        return _res(f)
    if k == "keys":
        sh = tuple(c["sh"])
        n = 1
        for d in sh:
            n *= d
        return [
            _res(lambda: list(m.output_key(sh, n))),
            _res(lambda: _key_obs(m.input_keys(sh, n))),
            _res(lambda: [list(m.output_key(sh, j)) for j in range(n)]),
            _res(lambda: [_key_obs(m.input_keys(sh, j)) for j in range(n)]),
        ]
    if k == "rename":
        return _res(lambda: _ms_obs(m.rename(dict(c["ren"]))))
    if k == "add_axes":
        return _res(lambda: _ms_obs(m.add_axes(*c["ax"])))
    raise ValueError(k)


# ------------------------------------------------------------------ generators
def gen_wf(rng, allow_dup=False):
    """A random declaratively well-formed spec as raw (inputs, outputs)."""
    n_idx = rng.randint(1, 4)
    idx = rng.sample(INDICES, n_idx)
    out_rank = rng.randint(1, min(3, n_idx))
    out_axes = rng.sample(idx, out_rank)
    if allow_dup and rng.random() < 0.1:
        out_axes[rng.randrange(out_rank)] = out_axes[0]
    names = rng.sample(NAMES, 5)
    n_in = rng.choice([0, 1, 1, 2, 2, 3])
    ins = []
    for q in range(n_in):
        r = rng.randint(1, 3)
        ax = []
        pool = list(out_axes)
        rng.shuffle(pool)
        for _ in range(r):
            if rng.random() < 0.25 or not pool:
                ax.append(None)
            else:
                ax.append(pool.pop() if not (allow_dup and rng.random() < 0.1) else rng.choice(out_axes))
        nm = names[q] if not (allow_dup and q and rng.random() < 0.08) else names[0]
        ins.append([nm, ax])
    outs = [[names[3], list(out_axes)]]
    if rng.random() < 0.3:
        outs.append([names[4], list(out_axes)])
    return ins, outs


def to_string(rng, ins, outs, messy=True):
    def w():
        return rng.choice(WS) if messy else ""

    def arr(n, ax):
        sep = "," + (w() if messy else " ")
        return n + w() * 0 + "[" + w() + (w() + sep).join(":" if a is None else a for a in ax) + w() + "]"

    left = (w() + "," + w()).join(arr(n, ax) for n, ax in ins) if ins else w() + "..." + w()
    right = (w() + "," + w()).join(arr(n, ax) for n, ax in outs)
    return w() + left + w() + "->" + w() + right + w()


MUT_CHARS = ["[", "]", ",", ":", "->", " ", ".", "1", "-", ">", "\n", "a", "i", "...", "[]", "]]", "\x0b", "\x1f", "_"]


def mutate(rng, text):
    op = rng.randrange(6)
    if not text:
        return rng.choice(MUT_CHARS)
    p = rng.randrange(len(text))
    if op == 0:
        return text[:p] + text[p + 1:]
    if op == 1:
        return text[:p] + rng.choice(MUT_CHARS) + text[p:]
    if op == 2:
        return text[:p] + rng.choice(MUT_CHARS) + text[p + 1:]
    if op == 3:
        q = rng.randrange(len(text))
        a, b = min(p, q), max(p, q)
        return text[:a] + text[b:]
    if op == 4:
        return text[:p] + text[p] * 2 + text[p + 1:]
    return text.replace(rng.choice(INDICES), rng.choice(INDICES + [":", "", "q"]), 1)


def raw_mutate(rng, ins, outs):
    """Single-fault mutations on the structure: the four malformation classes of the property + others."""
    ins = [[n, list(a)] for n, a in ins]
    outs = [[n, list(a)] for n, a in outs]
    op = rng.randrange(7)
    if op == 0 and outs:  # ':' in an output (any output)
        o = rng.choice(outs)
        if rng.random() < 0.5:
            o[1][rng.randrange(len(o[1]))] = None
        else:
            o[1].insert(rng.randrange(len(o[1]) + 1), None)
    elif op == 1 and ins:  # input index absent from the output
        a = rng.choice(ins)
        a[1][rng.randrange(len(a[1]))] = "zz"
    elif op == 2 and len(outs) > 1:  # outputs with different indices
        o = outs[-1]
        if rng.random() < 0.5 and len(o[1]) > 1:
            o[1].reverse()
        else:
            o[1][rng.randrange(len(o[1]))] = "zz"
    elif op == 3:  # non-identifier name
        tgt = rng.choice(ins + outs)
        tgt[0] = rng.choice(["1x", "", "a-b", "a.b.c", "a b", ".a", "a.", "a..b", "_", "_1._2"])
    elif op == 4:  # non-identifier index
        tgt = rng.choice(ins + outs)
        tgt[1][rng.randrange(len(tgt[1]))] = rng.choice(["", "1", "i j", "i.j", ":"])
    elif op == 5:
        outs = []
    else:  # rank 0
        tgt = rng.choice(ins + outs)
        tgt[1] = []
    return ins, outs


def shapes_for(rng, ins, outs, lo=1, hi=4):
    sizes = {}
    ish = []
    for n, ax in ins:
        ish.append([n, [sizes.setdefault(a, rng.randint(lo, hi)) if a is not None else rng.randint(lo, hi) for a in ax]])
    in_idx = {a for _, ax in ins for a in ax if a is not None}
    n_int = sum(1 for a in outs[0][1] if a not in in_idx)
    internal = [[outs[0][0], [rng.randint(lo, hi) for _ in range(n_int)]]] if n_int else []
    ext = [sizes[a] for a in outs[0][1] if a in in_idx]
    return ish, internal, ext


def _dedupe(kvs):
    """Python dict semantics for a list of [key, value] pairs: the last binding of a key wins."""
    d = {}
    for k, v in kvs:
        d[k] = v
    return [[k, v] for k, v in d.items()]


def gen_idx(rng):
    """Direct calls of the index helpers."""
    f = rng.choice(["strides", "key", "key", "select", "select", "ext", "int"])
    rank = rng.choice([0, 1, 2, 2, 3, 3, 4])
    lo = 0 if rng.random() < 0.15 else 1
    sh = [rng.randint(lo, 4) for _ in range(rank)]
    if f == "strides":
        return {"kind": "idx", "f": f, "sh": sh}
    if f == "key":
        n = 1
        for d in sh:
            n *= d
        r = rng.random()
        return {"kind": "idx", "f": f, "sh": sh, "n": rng.randrange(n) if n and r < 0.8 else n + rng.randrange(3)}
    mask = [rng.random() < 0.5 for _ in range(rng.randint(0, 5))]
    if f == "select":
        ne, ni = sum(mask), len(mask) - sum(mask)
        r = rng.random()
        if r < 0.6:
            pass
        elif r < 0.8:
            if rng.random() < 0.5:
                ne = max(0, ne - 1)
            else:
                ni = max(0, ni - 1)
        else:
            ne, ni = ne + rng.randint(0, 2), ni + rng.randint(0, 2)
        return {"kind": "idx", "f": f, "mask": mask, "e": [rng.randint(0, 9) for _ in range(ne)],
                "i": [rng.randint(10, 19) for _ in range(ni)]}
    k = len(mask) if rng.random() < 0.8 else rng.randint(0, 5)
    return {"kind": "idx", "f": f, "sh": [rng.randint(0, 9) for _ in range(k)], "mask": mask}


def gen_axes(rng):
    """A list of MapSpecs sharing array names (as the functions of one pipeline do): each array has a rank and, per
    dimension, an index name; every occurrence writes the name or ':' (inputs only); faults: another rank, another name
    at one position of one occurrence."""
    arrays = {}
    names = rng.sample(NAMES, rng.randint(2, 5))
    for nm in names:
        r = rng.randint(1, 3)
        arrays[nm] = rng.sample(INDICES, r)
    specs = []
    for _ in range(rng.randint(1, 4)):
        out = rng.choice(names)
        oax = list(arrays[out])
        ins = []
        for nm in rng.sample([x for x in names if x != out], rng.randint(0, min(3, len(names) - 1))):
            ax = [a if (a in oax and rng.random() < 0.7) else None for a in arrays[nm]]
            ins.append([nm, ax])
        specs.append([ins, [[out, oax]]])
    r = rng.random()
    if r < 0.3 and specs:
        # inconsistent on purpose
        i, o = rng.choice(specs)
        tgt = rng.choice(i + o)
        if rng.random() < 0.5:
            tgt[1] = tgt[1] + [None] if tgt in i else tgt[1][:-1] or tgt[1]
        else:
            k = rng.randrange(len(tgt[1]))
            if tgt in i:
                oax = o[0][1]
                other = [a for a in oax if a != tgt[1][k] and a not in tgt[1]]
                if other:
                    tgt[1][k] = rng.choice(other)
    return {"kind": "axes", "specs": specs}


def generate(rng, tier, mult):
    return [_clean(c) for c in _generate(rng, tier, mult)]


def _clean(c):
    for key in ("ishapes", "internal"):
        if key in c:
            c[key] = _dedupe(c[key])
    return c


def _generate(rng, tier, mult):
    n = (250 if tier == "quick" else 1500) * mult
    cases = [{"kind": "gen", "fn": fn} for fn in OBLIGATION_THEOREM]
    for _ in range(n):
        cases.append(gen_axes(rng))
        cases.append(gen_idx(rng))
        cases.append(gen_idx(rng))
        ins, outs = gen_wf(rng, allow_dup=rng.random() < 0.15)
        text = to_string(rng, ins, outs)
        cases.append({"kind": "parse", "s": text})
        cases.append({"kind": "build", "i": ins, "o": outs})
        for _ in range(2):
            cases.append({"kind": "parse", "s": mutate(rng, text if rng.random() < 0.7 else mutate(rng, text))})
        mi, mo = raw_mutate(rng, ins, outs)
        cases.append({"kind": "build", "i": mi, "o": mo})
        if mo and all(ax for _, ax in mi + mo):
            cases.append({"kind": "parse", "s": to_string(rng, mi, mo)})
        ish, internal, ext = shapes_for(rng, ins, outs, lo=rng.choice([1, 1, 1, 0]))
        cases.append({"kind": "shape", "i": ins, "o": outs, "ishapes": ish, "internal": internal})
        # faulty shape requests: resized zipped axis, changed rank, missing / surplus input, internal shape problems
        ish2 = [[a, list(b)] for a, b in ish]
        int2 = [[a, list(b)] for a, b in internal]
        op = rng.randrange(6)
        if op == 0 and ish2:
            t = rng.choice(ish2)
            if t[1]:
                t[1][rng.randrange(len(t[1]))] += rng.choice([1, 2])
        elif op == 1 and ish2:
            t = rng.choice(ish2)
            t[1] = t[1] + [2] if rng.random() < 0.5 else t[1][:-1]
        elif op == 2 and ish2:
            ish2.pop(rng.randrange(len(ish2)))
        elif op == 3:
            ish2.append(["extra", [2]])
        elif op == 4:
            if int2 and rng.random() < 0.5:
                int2[0][1] = int2[0][1][:-1]
            else:
                int2 = []
        else:
            nm = rng.choice(["other", outs[-1][0]])
            if nm not in [a for a, _ in int2]:
                int2.append([nm, [2]])
        cases.append({"kind": "shape", "i": ins, "o": outs, "ishapes": ish2, "internal": int2})
        if rng.random() < 0.35:
            # several inputs zipped on the same index; exactly one of them (any position) has a different size
            k = rng.randint(2, 4)
            ix = rng.choice(INDICES)
            zi = [[f"q{t_}", [ix] if rng.random() < 0.7 else rng.choice([[ix, None], [None, ix]])] for t_ in range(k)]
            zo = [[names_z, [ix]] for names_z in ["out"]]
            d0 = rng.randint(1, 4)
            zsh = [[n_, [d0 if a is not None else rng.randint(1, 3) for a in ax]] for n_, ax in zi]
            cases.append({"kind": "shape", "i": zi, "o": zo, "ishapes": zsh, "internal": []})
            bad = rng.randrange(k)
            zsh2 = [[n_, list(s_)] for n_, s_ in zsh]
            pos = zi[bad][1].index(ix)
            zsh2[bad][1][pos] = d0 + rng.choice([1, 2])
            cases.append({"kind": "shape", "i": zi, "o": zo, "ishapes": zsh2, "internal": []})
        sh = list(ext)
        if rng.random() < 0.12:
            sh = sh + [2] if rng.random() < 0.5 else sh[:-1]
        if rng.random() < 0.08 and sh:
            sh[rng.randrange(len(sh))] = 0
        cases.append({"kind": "keys", "i": ins, "o": outs, "sh": sh})
        allnames = [x[0] for x in ins + outs]
        ren = [[k, rng.choice(NAMES + ["1bad", "r.s", "r.s.t"])]
               for k in rng.sample(sorted(set(allnames + ["nope"])), rng.randint(0, 2))]
        cases.append({"kind": "rename", "i": ins, "o": outs, "ren": ren})
        ax = [rng.choice(INDICES + ["new", "n2", None, "1bad"]) for _ in range(rng.randint(0, 2))]
        cases.append({"kind": "add_axes", "i": ins, "o": outs, "ax": ax})
    return cases


def nontrivial_key(c):
    k = c["kind"]
    if k == "gen":
        return (k, c["fn"])
    if k == "axes":
        return (k, c["specs"]) if len(c["specs"]) >= 2 else None
    if k == "idx":
        big = len(c.get("sh") or c.get("mask") or []) >= 2
        return (k, c["f"], c.get("sh"), c.get("n"), c.get("mask"), c.get("e"), c.get("i")) if big else None
    if k == "parse":
        return (k, c["s"]) if ("," in c["s"] or ":" in c["s"]) else None
    idx = {a for _, ax in c["i"] + c["o"] for a in ax}   # noqa: C416
    if len(idx - {None}) >= 2 or None in idx:
        return (k, c["i"], c["o"], c.get("sh"), c.get("ishapes"), c.get("internal"), c.get("ren"), c.get("ax"))
    return None


def distribution(c):
    d = {"kind": c["kind"]}
    if c["kind"] == "keys":
        d["rank"] = len(c["sh"])
    if c["kind"] == "idx":
        d["idx"] = c["f"]
    return d


def finding_id(c, impl_obs, kind):
    if c["kind"] == "gen":
        # one replay per broken obligation: obligations that are merely blocked by it are grouped with it
        o = index_obligations()
        st = impl_obs[1] if isinstance(impl_obs, list) and len(impl_obs) == 2 else ""
        if isinstance(st, str) and st.startswith("not checked") and o.get("failing"):
            return f"index-obligation:{o['failing']}"
        return f"index-obligation:{c['fn']}"
    if c["kind"] == "idx":
        return f"index-call:{c['f']}"
    if c["kind"] == "axes":
        return "axes-of-mapspec-list"
    # a ':' axis in a non-first output accepted by the constructor / parser
    if c["kind"] in ("parse", "build") and isinstance(impl_obs, list) and impl_obs and impl_obs[0] == "ok":
        return "colon-in-later-output"
    return None


def shrink(c):
    out = []
    if c["kind"] in ("gen", "idx"):
        return out
    if c["kind"] == "axes":
        sp = c["specs"]
        for j in range(len(sp)):
            out.append({"kind": "axes", "specs": sp[:j] + sp[j + 1:]})
        for j, (i, o) in enumerate(sp):
            for q in range(len(i)):
                out.append({"kind": "axes", "specs": sp[:j] + [[i[:q] + i[q + 1:], o]] + sp[j + 1:]})
        return out
    if c["kind"] == "parse":
        t = c["s"]
        for i in range(len(t)):
            out.append({"kind": "parse", "s": t[:i] + t[i + 1:]})
        return out
    for key in ("i", "o"):
        for j in range(len(c[key])):
            d = dict(c)
            d[key] = c[key][:j] + c[key][j + 1:]
            out.append(d)
    return out
