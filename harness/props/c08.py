"""C08 - MapSpec parsing, printing, shapes and index maps are mutually consistent."""
from __future__ import annotations

import itertools

from ..coqlit import Err, Ok, cbool, clist, cnat, copt, cpair, cstr

PROP = "C08"
RUN = "Run_C08"
THEOREMS = "Props/C08.v"
ANCHORS = [("pipefunc/map/_mapspec.py",
            ["shape_to_strides", "ArraySpec", "MapSpec", "_shape_to_key", "_parse_index_string",
             "_parse_indexed_arrays", "_validate_shapes", "_get_common_dim", "_get_output_dim"])]
RULE = ("random well-formed MapSpecs (<=3 inputs, <=2 outputs, <=4 index names, rank<=3, ':' axes, scoped names, "
        "random whitespace) x shapes with sizes 0..4 x ALL linear indices, direct constructor calls, rename/add_axes, "
        "and malformed strings from mutation operators; non-trivial = >=2 index names or a ':' axis or a malformed "
        "string; distinct by (kind, canonical spec, shapes)")
ASSUMPTIONS = ["ASCII identifiers only (Python's \\w / isidentifier are Unicode aware)",
               "rank >= 1 arrays for the print/parse round trip (the notation cannot write rank 0)"]
TRUSTED = ["Model/MapSpec.v mirrors pipefunc/map/_mapspec.py by hand; tie = per-run differential execution"]

NAMES = ["a", "b", "x", "y1", "_z", "s.a", "s.b", "long_name"]
INDICES = ["i", "j", "k", "l_1"]
WS = ["", " ", "  ", "\t"]


def _axes_lit(ax):
    return clist([copt(a, cstr) for a in ax])


def _raw_lit(raw):
    return clist([cpair(cstr(n), _axes_lit(ax)) for n, ax in raw])


def _shapes_lit(d):
    return clist([cpair(cstr(k), clist([cnat(x) for x in v])) for k, v in d])


def emit_case(c) -> str:
    k = c["kind"]
    if k == "parse":
        return f"(CParse {cstr(c['s'])})"
    if k == "build":
        return f"(CBuild {_raw_lit(c['i'])} {_raw_lit(c['o'])})"
    if k == "shape":
        return f"(CShape {_raw_lit(c['i'])} {_raw_lit(c['o'])} {_shapes_lit(c['ishapes'])} {_shapes_lit(c['internal'])})"
    if k == "keys":
        return f"(CKeys {_raw_lit(c['i'])} {_raw_lit(c['o'])} {clist([cnat(x) for x in c['sh']])})"
    if k == "rename":
        return f"(CRename {_raw_lit(c['i'])} {_raw_lit(c['o'])} {clist([cpair(cstr(a), cstr(b)) for a, b in c['ren']])})"
    if k == "add_axes":
        return f"(CAddAxes {_raw_lit(c['i'])} {_raw_lit(c['o'])} {_axes_lit(c['ax'])})"
    raise ValueError(k)


# ------------------------------------------------------------------ implementation driver
def _ms_obs(m):
    return [[[a.name, list(a.axes)] for a in m.inputs], [[a.name, list(a.axes)] for a in m.outputs]]


def _mk(i, o):
    from pipefunc.map._mapspec import ArraySpec, MapSpec

    return MapSpec(tuple(ArraySpec(n, tuple(ax)) for n, ax in i), tuple(ArraySpec(n, tuple(ax)) for n, ax in o))


def _res(f):
    try:
        return Ok(f())
    except Exception as e:  # noqa: BLE001
        return Err(e)


def _key_obs(d):
    return [[k, [":" if isinstance(x, slice) else int(x) for x in v]] for k, v in d.items()]


def run_impl(c):
    from pipefunc.map._mapspec import MapSpec

    k = c["kind"]
    if k == "parse":
        return _res(lambda: _ms_obs(MapSpec.from_string(c["s"])))
    if k == "build":
        def f():
            m = _mk(c["i"], c["o"])
            p = str(m)
            return [p, _res(lambda: _ms_obs(MapSpec.from_string(p)))]
        return _res(f)
    try:
        m = _mk(c["i"], c["o"])
    except Exception as e:  # noqa: BLE001
        return ["bad-case", Err(e)]
    if k == "shape":
        def f():
            sh, mask = m.shape({a: tuple(b) for a, b in c["ishapes"]}, {a: tuple(b) for a, b in c["internal"]})
            return [[int(x) for x in sh], [bool(x) for x in mask]]
        return _res(f)
    if k == "keys":
        sh = tuple(c["sh"])
        n = 1
        for d in sh:
            n *= d
        return [
            _res(lambda: list(m.output_key(sh, n))),
            _res(lambda: _key_obs(m.input_keys(sh, n))),
            _res(lambda: [list(m.output_key(sh, j)) for j in range(n)]),
            _res(lambda: [_key_obs(m.input_keys(sh, j)) for j in range(n)]),
        ]
    if k == "rename":
        return _res(lambda: _ms_obs(m.rename(dict(c["ren"]))))
    if k == "add_axes":
        return _res(lambda: _ms_obs(m.add_axes(*c["ax"])))
    raise ValueError(k)


# ------------------------------------------------------------------ generators
def gen_wf(rng, allow_dup=False):
    """A random declaratively well-formed spec as raw (inputs, outputs)."""
    n_idx = rng.randint(1, 4)
    idx = rng.sample(INDICES, n_idx)
    out_rank = rng.randint(1, min(3, n_idx))
    out_axes = rng.sample(idx, out_rank)
    if allow_dup and rng.random() < 0.1:
        out_axes[rng.randrange(out_rank)] = out_axes[0]
    names = rng.sample(NAMES, 5)
    n_in = rng.choice([0, 1, 1, 2, 2, 3])
    ins = []
    for q in range(n_in):
        r = rng.randint(1, 3)
        ax = []
        pool = list(out_axes)
        rng.shuffle(pool)
        for _ in range(r):
            if rng.random() < 0.25 or not pool:
                ax.append(None)
            else:
                ax.append(pool.pop() if not (allow_dup and rng.random() < 0.1) else rng.choice(out_axes))
        nm = names[q] if not (allow_dup and q and rng.random() < 0.08) else names[0]
        ins.append([nm, ax])
    outs = [[names[3], list(out_axes)]]
    if rng.random() < 0.3:
        outs.append([names[4], list(out_axes)])
    return ins, outs


def to_string(rng, ins, outs, messy=True):
    def w():
        return rng.choice(WS) if messy else ""

    def arr(n, ax):
        sep = "," + (w() if messy else " ")
        return n + w() * 0 + "[" + w() + (w() + sep).join(":" if a is None else a for a in ax) + w() + "]"

    left = (w() + "," + w()).join(arr(n, ax) for n, ax in ins) if ins else w() + "..." + w()
    right = (w() + "," + w()).join(arr(n, ax) for n, ax in outs)
    return w() + left + w() + "->" + w() + right + w()


MUT_CHARS = ["[", "]", ",", ":", "->", " ", ".", "1", "-", ">", "\n", "a", "i", "...", "[]", "]]", "\x0b", "\x1f", "_"]


def mutate(rng, text):
    op = rng.randrange(6)
    if not text:
        return rng.choice(MUT_CHARS)
    p = rng.randrange(len(text))
    if op == 0:
        return text[:p] + text[p + 1:]
    if op == 1:
        return text[:p] + rng.choice(MUT_CHARS) + text[p:]
    if op == 2:
        return text[:p] + rng.choice(MUT_CHARS) + text[p + 1:]
    if op == 3:
        q = rng.randrange(len(text))
        a, b = min(p, q), max(p, q)
        return text[:a] + text[b:]
    if op == 4:
        return text[:p] + text[p] * 2 + text[p + 1:]
    return text.replace(rng.choice(INDICES), rng.choice(INDICES + [":", "", "q"]), 1)


def raw_mutate(rng, ins, outs):
    """Single-fault mutations on the structure: the four malformation classes of the property + others."""
    ins = [[n, list(a)] for n, a in ins]
    outs = [[n, list(a)] for n, a in outs]
    op = rng.randrange(7)
    if op == 0 and outs:  # ':' in an output (any output)
        o = rng.choice(outs)
        if rng.random() < 0.5:
            o[1][rng.randrange(len(o[1]))] = None
        else:
            o[1].insert(rng.randrange(len(o[1]) + 1), None)
    elif op == 1 and ins:  # input index absent from the output
        a = rng.choice(ins)
        a[1][rng.randrange(len(a[1]))] = "zz"
    elif op == 2 and len(outs) > 1:  # outputs with different indices
        o = outs[-1]
        if rng.random() < 0.5 and len(o[1]) > 1:
            o[1].reverse()
        else:
            o[1][rng.randrange(len(o[1]))] = "zz"
    elif op == 3:  # non-identifier name
        tgt = rng.choice(ins + outs)
        tgt[0] = rng.choice(["1x", "", "a-b", "a.b.c", "a b", ".a", "a.", "a..b", "_", "_1._2"])
    elif op == 4:  # non-identifier index
        tgt = rng.choice(ins + outs)
        tgt[1][rng.randrange(len(tgt[1]))] = rng.choice(["", "1", "i j", "i.j", ":"])
    elif op == 5:
        outs = []
    else:  # rank 0
        tgt = rng.choice(ins + outs)
        tgt[1] = []
    return ins, outs


def shapes_for(rng, ins, outs, lo=1, hi=4):
    sizes = {}
    ish = []
    for n, ax in ins:
        ish.append([n, [sizes.setdefault(a, rng.randint(lo, hi)) if a is not None else rng.randint(lo, hi) for a in ax]])
    in_idx = {a for _, ax in ins for a in ax if a is not None}
    n_int = sum(1 for a in outs[0][1] if a not in in_idx)
    internal = [[outs[0][0], [rng.randint(lo, hi) for _ in range(n_int)]]] if n_int else []
    ext = [sizes[a] for a in outs[0][1] if a in in_idx]
    return ish, internal, ext


def _dedupe(kvs):
    """Python dict semantics for a list of [key, value] pairs: the last binding of a key wins."""
    d = {}
    for k, v in kvs:
        d[k] = v
    return [[k, v] for k, v in d.items()]


def generate(rng, tier, mult):
    return [_clean(c) for c in _generate(rng, tier, mult)]


def _clean(c):
    for key in ("ishapes", "internal"):
        if key in c:
            c[key] = _dedupe(c[key])
    return c


def _generate(rng, tier, mult):
    n = (250 if tier == "quick" else 1500) * mult
    cases = []
    for _ in range(n):
        ins, outs = gen_wf(rng, allow_dup=rng.random() < 0.15)
        text = to_string(rng, ins, outs)
        cases.append({"kind": "parse", "s": text})
        cases.append({"kind": "build", "i": ins, "o": outs})
        for _ in range(2):
            cases.append({"kind": "parse", "s": mutate(rng, text if rng.random() < 0.7 else mutate(rng, text))})
        mi, mo = raw_mutate(rng, ins, outs)
        cases.append({"kind": "build", "i": mi, "o": mo})
        if mo and all(ax for _, ax in mi + mo):
            cases.append({"kind": "parse", "s": to_string(rng, mi, mo)})
        ish, internal, ext = shapes_for(rng, ins, outs, lo=rng.choice([1, 1, 1, 0]))
        cases.append({"kind": "shape", "i": ins, "o": outs, "ishapes": ish, "internal": internal})
        # faulty shape requests: resized zipped axis, changed rank, missing / surplus input, internal shape problems
        ish2 = [[a, list(b)] for a, b in ish]
        int2 = [[a, list(b)] for a, b in internal]
        op = rng.randrange(6)
        if op == 0 and ish2:
            t = rng.choice(ish2)
            if t[1]:
                t[1][rng.randrange(len(t[1]))] += rng.choice([1, 2])
        elif op == 1 and ish2:
            t = rng.choice(ish2)
            t[1] = t[1] + [2] if rng.random() < 0.5 else t[1][:-1]
        elif op == 2 and ish2:
            ish2.pop(rng.randrange(len(ish2)))
        elif op == 3:
            ish2.append(["extra", [2]])
        elif op == 4:
            if int2 and rng.random() < 0.5:
                int2[0][1] = int2[0][1][:-1]
            else:
                int2 = []
        else:
            nm = rng.choice(["other", outs[-1][0]])
            if nm not in [a for a, _ in int2]:
                int2.append([nm, [2]])
        cases.append({"kind": "shape", "i": ins, "o": outs, "ishapes": ish2, "internal": int2})
        if rng.random() < 0.35:
            # several inputs zipped on the same index; exactly one of them (any position) has a different size
            k = rng.randint(2, 4)
            ix = rng.choice(INDICES)
            zi = [[f"q{t_}", [ix] if rng.random() < 0.7 else rng.choice([[ix, None], [None, ix]])] for t_ in range(k)]
            zo = [[names_z, [ix]] for names_z in ["out"]]
            d0 = rng.randint(1, 4)
            zsh = [[n_, [d0 if a is not None else rng.randint(1, 3) for a in ax]] for n_, ax in zi]
            cases.append({"kind": "shape", "i": zi, "o": zo, "ishapes": zsh, "internal": []})
            bad = rng.randrange(k)
            zsh2 = [[n_, list(s_)] for n_, s_ in zsh]
            pos = zi[bad][1].index(ix)
            zsh2[bad][1][pos] = d0 + rng.choice([1, 2])
            cases.append({"kind": "shape", "i": zi, "o": zo, "ishapes": zsh2, "internal": []})
        sh = list(ext)
        if rng.random() < 0.12:
            sh = sh + [2] if rng.random() < 0.5 else sh[:-1]
        if rng.random() < 0.08 and sh:
            sh[rng.randrange(len(sh))] = 0
        cases.append({"kind": "keys", "i": ins, "o": outs, "sh": sh})
        allnames = [x[0] for x in ins + outs]
        ren = [[k, rng.choice(NAMES + ["1bad", "r.s", "r.s.t"])]
               for k in rng.sample(sorted(set(allnames + ["nope"])), rng.randint(0, 2))]
        cases.append({"kind": "rename", "i": ins, "o": outs, "ren": ren})
        ax = [rng.choice(INDICES + ["new", "n2", None, "1bad"]) for _ in range(rng.randint(0, 2))]
        cases.append({"kind": "add_axes", "i": ins, "o": outs, "ax": ax})
    return cases


def nontrivial_key(c):
    k = c["kind"]
    if k == "parse":
        return (k, c["s"]) if ("," in c["s"] or ":" in c["s"]) else None
    idx = {a for _, ax in c["i"] + c["o"] for a in ax}
    if len(idx - {None}) >= 2 or None in idx:
        return (k, c["i"], c["o"], c.get("sh"), c.get("ishapes"), c.get("internal"), c.get("ren"), c.get("ax"))
    return None


def distribution(c):
    d = {"kind": c["kind"]}
    if c["kind"] == "keys":
        d["rank"] = len(c["sh"])
    return d


def finding_id(c, impl_obs, kind):
    # a ':' axis in a non-first output accepted by the constructor / parser
    if c["kind"] in ("parse", "build") and isinstance(impl_obs, list) and impl_obs and impl_obs[0] == "ok":
        return "colon-in-later-output"
    return None


def shrink(c):
    out = []
    if c["kind"] == "parse":
        t = c["s"]
        for i in range(len(t)):
            out.append({"kind": "parse", "s": t[:i] + t[i + 1:]})
        return out
    for key in ("i", "o"):
        for j in range(len(c[key])):
            d = dict(c)
            d[key] = c[key][:j] + c[key][j + 1:]
            out.append(d)
    return out
