"""C09 - Caching never changes what a pipeline returns."""
from __future__ import annotations

import contextlib
import copy
import io
import itertools
import json
import shutil
import tempfile

from .. import mapgen, mapsym, pipegen
from ..coqlit import Err, Ok, cbool, clist, cnat, copt, cpair, cstr
from ..symfuncs import ListLog, canon

PROP = "C09"
RUN = "Run_C09"
THEOREMS = "Props/C09.v"
ANCHORS = [("pipefunc/_pipeline/_cache.py", ["compute_cache_key", "get_result_from_cache", "update_cache", "create_cache"]),
           ("pipefunc/_pipeline/_base.py", ["Pipeline._run", "Pipeline.run", "Pipeline._get_func_args", "Pipeline._func_defaults",
                                            "Pipeline._clear_internal_cache", "Pipeline.update_defaults", "Pipeline.replace",
                                            "Pipeline.drop", "Pipeline.add", "Pipeline.root_args", "Pipeline.defaults",
                                            "_update_all_results"]),
           ("pipefunc/_pipefunc.py", ["PipeFunc.update_bound", "PipeFunc.update_defaults", "PipeFunc._clear_internal_cache",
                                      "PipeFunc.defaults"]),
           ("pipefunc/map/_run.py", ["_get_or_set_cache", "_run_iteration", "_execute_single"]),
           ("pipefunc/cache.py", ["SimpleCache", "LRUCache.get", "LRUCache.put", "LRUCache.__contains__", "LRUCache.clear"])]
RULE = ("TWIN pipelines (cached / uncached) from the C02 generator (1..4 structural functions: nullary, tuple outputs, "
        "shared parameters, signature/explicit defaults, bound values, renames) x every subset of cached functions x "
        "cache_type in {simple, lru(max 1..3|128), hybrid(max 1..3), disk(no limit | max_size 1..2)} (non-shared) x histories "
        "of 1..6 steps: calls drawn from 1..3 templates (output, argument cut: root args / any arg_combination incl. "
        "intermediates / surplus / missing, full_output) with values from a 2-element pool per name (+ the default value), "
        "interleaved update_defaults / update_bound / replace(new function, other name+body); per step value-or-exception "
        "and call log of BOTH twins.  Map path: sequential pipeline.map(storage='dict', parallel=False) of the C01 "
        "generator with inputs drawn from a 2-element pool, with and without a pipeline cache.  non-trivial = history "
        "with >= 2 calls and >= 1 cached function (map: >= 1 repeated input value); distinct by (pipeline, cache type, "
        "history)")
ASSUMPTIONS = ["values are strings (structural bodies) or None: single-output functions named nn* return Python's None (cached, as "
               "dependency, with full_output, every cache type; call path only - the map path stores 1-tuples and is not "
               "exercised with None results); user functions are deterministic and do not raise",
               "call histories: non-shared caches, sequential execution; lazy pipelines are not exercised",
               "shared-cache parallel map runs: PROVED at the granularity of atomic cache operations (one read, one write per "
               "invocation, arbitrary actions of other clients in between: C09_map_shared_read/_write); SAMPLED on the real "
               "code: pipeline.map under a ThreadPoolExecutor (2..8 workers) with LRUCache(shared=True, max_size 1..3) and "
               "repeated input values - only the results are compared (execution counts are not required to be minimal "
               "under races); process pools and OS-level timing are not explored",
               "every pipeline of a history is well-formed (the ONLY side condition of the theorems; roots_okb is proved from it); mutations are generated so that construction-time validation "
               "accepts the result); update_bound never binds a parameter that has an explicit default",
               "the cached twin is constructed with an explicit cache_type (Pipeline.cache is not None)",
               "only the simple / lru policies (and DiskCache without eviction, which behaves as simple) are compared with "
               "the model step by step; for hybrid / evicting disk caches only the returned values are compared"]
TRUSTED = ["Model/CacheSem.v mirrors Pipeline._run (cache branch), compute_cache_key, get_result_from_cache, the mutation "
           "entry points and _get_or_set_cache by hand; tie = per-run differential execution of twin pipelines",
           "Model/Pipe.v (root_args, update_all_results) as for C02", "harness/symfuncs.py, harness/mapsym.py (structural bodies)",
           "the own small SimpleCache / LRUCache(shared=False) models in CacheSem.v (the container classes are C14's subject)"]

CT = {"simple": 0, "lru": 1, "disk": 2, "other": 3}


# ------------------------------------------------------------------ Coq literals
def _step_lit(st) -> str:
    k = st["k"]
    if k == "call":
        return f"(Call {cstr(st['o'])} {pipegen.alist_lit(st['kw'])} {cbool(st['full'])})"
    if k == "defaults":
        return f"(UpdDefaults {pipegen.alist_lit(st['d'])})"
    if k == "bound":
        return f"(UpdBound {cstr(st['o'])} {pipegen.alist_lit(st['b'])})"
    if k == "replace":
        return f"(Replace {pipegen.func_lit(st['f'])})"
    raise ValueError(k)


def _model_ct(cache):
    t = cache["type"]
    kw = cache.get("kw", {})
    if t == "simple":
        return 0, 0
    if t == "lru" and kw.get("shared"):
        return 3, 0                      # shared cache under a thread pool: only the returned values are observed
    if t == "lru":
        return 1, kw.get("max_size", 128)
    if t == "disk" and kw.get("max_size") is None:
        return 2, 0
    return 3, 0


# --- map requests: own emitter (positional constructors of Run_C09Map; record syntax would clash with Model/Pipe.v)
def _m_axes(ax):
    return clist([copt(a, cstr) for a in ax])


def _m_spec(sp):
    if sp is None:
        return "None"
    ins = clist([f"(Run_C09Map.mkarr {cstr(n)} {_m_axes(ax)})" for n, ax in sp["i"]])
    outs = clist([f"(Run_C09Map.mkarr {cstr(n)} {_m_axes(ax)})" for n, ax in sp["o"]])
    return f"(Some (Run_C09Map.mkspec {ins} {outs}))"


def _m_val(v):
    if isinstance(v, str):
        return f"(Run_C09Map.vs {cstr(v)})"
    return f"(Run_C09Map.va {clist([cnat(x) for x in v['sh']])} {clist([cstr(x) for x in v['d']])})"


def _m_env(kvs):
    return clist([cpair(cstr(k), _m_val(v)) for k, v in kvs])


def _m_func(fd):
    ret = fd.get("ret") if fd.get("ret") is not None else (fd.get("int") or [])
    return (f"(Run_C09Map.mkmf {cstr(fd['name'])} {clist([cstr(o) for o in fd['outs']])} "
            f"{clist([cstr(p) for p in fd['params']])} {_m_env(fd.get('bound') or [])} {_m_env(fd.get('defaults') or [])} "
            f"{_m_spec(fd.get('spec'))} {clist([cnat(x) for x in (fd.get('int') or [])])} {clist([cnat(x) for x in ret])})")


def _m_req(c):
    shapes = clist([cpair(cstr(k), clist([cnat(x) for x in v])) for k, v in (c.get("internal") or [])])
    return f"(Run_C09Map.mkreq {clist([_m_func(f) for f in c['funcs']])} {_m_env(c['inputs'])} {shapes})"


def emit_case(c) -> str:
    if c["kind"] == "hist":
        ct, lmax = _model_ct(c["cache"])
        return (f"(CHist {pipegen.pipeline_lit(c['p'])} {cnat(ct)} {cnat(lmax)} "
                f"{clist([_step_lit(st) for st in c['h']])})")
    if c["kind"] == "map":
        noev = _model_ct(c["cache"])[0] in (0, 2)
        sec = c.get("second")
        sec_lit = "None" if sec is None else f"(Some ({_m_req(_second_req(c))}, {cbool(sec['replace'] is not None)}))"
        return ("(CMap {| Run_C09Map.m_req := " + _m_req(c["req"]) + "; Run_C09Map.m_second := " + sec_lit
                + "; Run_C09Map.m_noevict := " + cbool(noev) + " |})")
    raise ValueError(c["kind"])


# ------------------------------------------------------------------ implementation driver
class NoneFunc(pipegen.SymFunc):
    """A structural function that logs its call like SymFunc but returns Python's None (single output only)."""

    def __call__(self, *args, **kwargs):
        super().__call__(*args, **kwargs)
        return None


def returns_none(name: str) -> bool:
    return name.startswith("nn")            # mirrored by Run_C09.returns_none


def _build(pd, log=None, **pipeline_kwargs):
    """pipegen.build, with NoneFunc bodies for the functions whose name starts with 'nn'."""
    from pipefunc import PipeFunc, Pipeline

    log = ListLog() if log is None else log
    pfs = []
    for fd in pd["funcs"]:
        origs = [o for _, o in fd["params"]]
        cls = NoneFunc if returns_none(fd["name"]) else pipegen.SymFunc
        sf = cls(fd["name"], origs, fd["outs"] if len(fd["outs"]) > 1 else None, log, fd["sigd"])
        renames = {o: c for c, o in fd["params"] if o != c}
        pf = PipeFunc(sf, output_name=tuple(fd["outs"]) if len(fd["outs"]) > 1 else fd["outs"][0],
                      renames=renames or None, defaults=dict(fd["defs"]) or None, bound=dict(fd["bound"]) or None,
                      cache=bool(fd.get("cached", False)))
        pfs.append(pf)
    return pipegen.Built(Pipeline(pfs, **pipeline_kwargs), log, pfs)


def _uncached(pd):
    q = copy.deepcopy(pd)
    for f in q["funcs"]:
        f["cached"] = False
    return q


class _CacheDir:
    """cache_kwargs for a case; a DiskCache gets a fresh temp directory that is always removed."""

    def __init__(self, cache):
        self.cache = cache
        self.dir = None

    def __enter__(self):
        t = self.cache["type"]
        kw = dict(self.cache.get("kw", {}))
        if t in ("lru", "hybrid"):
            kw.setdefault("shared", False)
        if t == "disk":
            self.dir = tempfile.mkdtemp(prefix="verif_c09_")
            kw["cache_dir"] = self.dir
            kw["lru_shared"] = False
        if t == "simple":
            return t, None
        return t, kw

    def __exit__(self, *a):
        if self.dir is not None:
            shutil.rmtree(self.dir, ignore_errors=True)


def _dict_obs(d):
    return [[k, canon(v)] for k, v in sorted(d.items())]


def _call(b, st):
    b.log.clear()
    try:
        r = b.pipeline.run(st["o"], full_output=st["full"], kwargs=dict(st["kw"]))
        r = Ok(_dict_obs(r) if st["full"] else canon(r))
    except Exception as e:  # noqa: BLE001
        r = Err(e)
    return r, b.log.read()


def _mutate(b, st, cached_twin):
    from pipefunc import PipeFunc

    try:
        k = st["k"]
        if k == "defaults":
            b.pipeline.update_defaults(dict(st["d"]))
        elif k == "bound":
            b.pipeline[st["o"]].update_bound(dict(st["b"]))
        elif k == "replace":
            fd = dict(st["f"])
            if not cached_twin:
                fd["cached"] = False
            new = _build({"funcs": [fd]}, log=b.log).funcs[0]
            assert isinstance(new, PipeFunc)
            b.pipeline.replace(new)
        else:
            raise ValueError(k)
        return Ok(None)
    except Exception as e:  # noqa: BLE001
        return Err(e)


def _run_hist(c):
    modelled = _model_ct(c["cache"])[0] != 3
    try:
        bu = _build(_uncached(c["p"]))
    except Exception:  # noqa: BLE001
        return ["bad-case"]
    with _CacheDir(c["cache"]) as (ct, ckw):
        bc = _build(c["p"], cache_type=ct, cache_kwargs=ckw)
        out = []
        for st in c["h"]:
            if st["k"] == "call":
                ru, lu = _call(bu, st)
                rc, lc = _call(bc, st)
                if modelled:
                    out.append([ru, lu, rc, lc])
                else:
                    out.append([ru, lu, rc if isinstance(ru, Ok) else "skip"])
            else:
                out.append([_mutate(bu, st, False), _mutate(bc, st, True)])
        return out


def _second_req(c):
    """The request of the second map run: the same one, or the one with function j replaced (other name => other body)."""
    sec = c["second"]
    req2 = copy.deepcopy(c["req"])
    if sec["replace"] is not None:
        j = sec["replace"]
        req2["funcs"][j]["name"] = "g" + req2["funcs"][j]["name"]
    return req2


def _run_map(c):
    req = c["req"]
    sec = c.get("second")
    req2 = _second_req(c) if sec is not None else None
    noev = _model_ct(c["cache"])[0] in (0, 2)
    sink = io.StringIO()
    with contextlib.redirect_stdout(sink):
        workers = (c.get("par") or {}).get("workers")

        def twin(**pkw):
            """[(result obs | Err, executions)] for the one or two map runs on ONE pipeline object."""
            log = mapsym.CallLog()
            threaded = workers if pkw else None      # only the cached twin runs under the thread pool
            out = []
            try:
                p = mapsym.build_pipeline(req, log, **pkw)
            except Exception as e:  # noqa: BLE001
                return [(Err(e), -1)] * (2 if sec is not None else 1)

            def run(rq):
                n0 = len(log.read())
                try:
                    if threaded:
                        from concurrent.futures import ThreadPoolExecutor

                        with ThreadPoolExecutor(threaded) as ex:
                            r = p.map(mapsym.map_inputs(rq), internal_shapes=mapsym.internal_arg(rq), storage="dict",
                                      parallel=True, executor=ex)
                    else:
                        r = p.map(mapsym.map_inputs(rq), internal_shapes=mapsym.internal_arg(rq), storage="dict",
                                  parallel=False)
                    return ["ok", mapsym.results_obs(rq, r)], len(log.read()) - n0
                except Exception as e:  # noqa: BLE001
                    return Err(e), -1

            out.append(run(req))
            if sec is not None:
                if sec["replace"] is not None:
                    j = sec["replace"]
                    try:
                        new = mapsym.build_pipeline({"funcs": [req2["funcs"][j]]}, log).functions[0]
                        p.replace(new)
                    except Exception as e:  # noqa: BLE001
                        out.append((Err(e), -1))
                        return out
                out.append(run(req2))
            return out

        us = twin()
        with _CacheDir(c["cache"]) as (ct, ckw):
            cs = twin(cache_type=ct, cache_kwargs=ckw)
    obs = []
    for (ru, nu), (rc, nc) in zip(us, cs):
        u = ru if isinstance(ru, Err) else ["ok", ru[1], nu]
        obs.append([u, rc, nc if (noev and nc >= 0 and not isinstance(ru, Err)) else -1])
    return obs


def run_impl(c):
    if c["kind"] == "hist":
        return _run_hist(c)
    return _run_map(c)


# ------------------------------------------------------------------ generator
def _pool(rng, pd, name):
    vals = [f"{name}1", f"{name}2"]
    if rng.random() < 0.25:
        vals.append("d_" + name)          # equal to the generator's default value of that name
    return vals


def _templates(rng, pd, pl):
    outs = pipegen.outputs_of(pd)
    roots = pipegen.root_names(pd)
    ts = []
    for _ in range(rng.randint(1, 3)):
        o = rng.choice(outs)
        try:
            combos = sorted(pl.arg_combinations(o))
            ra = list(pl.root_args(o))
        except Exception:  # noqa: BLE001
            combos, ra = [], []
        r = rng.random()
        if r < 0.5:
            names = list(ra)
        elif r < 0.75 and combos:
            names = list(rng.choice(combos))          # may contain intermediates
        elif r < 0.85:
            names = list(ra) + [rng.choice(roots + [x for x in outs if x != o] + ["q"])]   # surplus / extra cut
        elif r < 0.93 and ra:
            names = list(ra)
            names.pop(rng.randrange(len(names)))        # missing (a default may cover it)
        else:
            names = list(roots)                          # every root of the pipeline
        names = list(dict.fromkeys(n for n in names if n != o))
        rng.shuffle(names)
        ts.append((o, names, rng.random() < 0.3))
    return ts


class _Track:
    """Python-side shadow of the mutable facts the mutation generator needs (not an oracle: only used to keep the
    generated mutations inside the modelled region)."""

    def __init__(self, pd):
        self.funcs = {tuple(f["outs"]): {"params": [c for c, _ in f["params"]], "bound": set(f["bound"]),
                                        "explicit": set(f["defs"]), "orig": f} for f in pd["funcs"]}
        self.touched = set()      # names whose default was changed by update_defaults
        self.nrep = 0


def _gen_mutation(rng, pd, tr):
    outs_all = set(pipegen.outputs_of(pd))
    roots = pipegen.root_names(pd)
    r = rng.random()
    if r < 0.35:
        names = sorted({p for f in tr.funcs.values() for p in f["params"]})
        cand = [n for n in names if n not in outs_all] or names
        if rng.random() < 0.12 or not cand:
            d = [["nope", "Dx"]]                                  # not a parameter: ValueError, nothing else
        else:
            ks = rng.sample(cand, min(len(cand), rng.choice([1, 1, 2])))
            d = [[k, f"D{rng.randint(1, 2)}_{k}"] for k in ks]
            if rng.random() < 0.1:
                d.append(["nope", "Dx"])
        for fs in tr.funcs.values():
            for k, _ in d:
                if k in fs["params"] and k not in fs["bound"]:
                    fs["explicit"].add(k)
        tr.touched.update(k for k, _ in d)
        return {"k": "defaults", "d": d}
    key = rng.choice(sorted(tr.funcs))
    fs = tr.funcs[key]
    if r < 0.7:
        o = rng.choice(list(key))
        cand = [p for p in fs["params"] if p not in fs["explicit"]]
        if rng.random() < 0.1:
            return {"k": "bound", "o": o if rng.random() < 0.5 else "nope", "b": [["nope", "Bx"]]}
        if not cand:
            return {"k": "bound", "o": o, "b": [["nope", "Bx"]]}
        k = rng.choice(cand)
        fs["bound"].add(k)
        return {"k": "bound", "o": o, "b": [[k, f"B9{rng.randint(1, 2)}_{k}"]]}
    # replace: same outputs, other name and body, parameters among the original ones and the roots (keeps the DAG)
    orig = fs["orig"]
    tr.nrep += 1
    pool = [c for c, _ in orig["params"]] + [x for x in roots if rng.random() < 0.3]
    pool = list(dict.fromkeys(pool))
    rng.shuffle(pool)
    names = pool[: rng.randint(0 if len(key) > 1 or rng.random() < 0.1 else min(1, len(pool)), len(pool))]
    params = [[c, c] for c in names]
    sigd, bound = {}, {}
    if names and rng.random() < 0.3 and names[-1] not in tr.touched and names[-1] not in outs_all:
        sigd[names[-1]] = "d_" + names[-1]
    for c in names:
        if c not in sigd and rng.random() < 0.12:
            bound[c] = f"B8_{c}"
    fd = {"name": ("nn" if len(key) == 1 and rng.random() < 0.25 else "") + f"g{tr.nrep}", "outs": list(key), "params": params, "sigd": sigd, "defs": {}, "bound": bound,
          "cached": rng.random() < 0.6}
    tr.funcs[key] = {"params": names, "bound": set(bound), "explicit": set(), "orig": fd}
    if rng.random() < 0.05:
        fd = dict(fd)
        fd["outs"] = ["nope"]                       # no such function: KeyError, nothing changes
        tr.funcs[key] = fs
    return {"k": "replace", "f": fd}


def _gen_history(rng, pd, pl, length, p_mut):
    ts = _templates(rng, pd, pl)
    pools = {}
    tr = _Track(pd)
    h = []
    for _ in range(length):
        if rng.random() < p_mut:
            h.append(_gen_mutation(rng, pd, tr))
            continue
        o, names, full = rng.choice(ts)
        kw = []
        for n in names:
            if n not in pools:
                pools[n] = _pool(rng, pd, n)
            kw.append([n, rng.choice(pools[n])])
        if rng.random() < 0.1:
            full = not full
        h.append({"k": "call", "o": o, "kw": kw, "full": full})
    return h


def _cache_choices(rng, tier):
    allc = [{"type": "simple"},
            {"type": "lru", "kw": {"max_size": rng.choice([1, 2, 3])}},
            {"type": "lru", "kw": {"max_size": 128}},
            {"type": "hybrid", "kw": {"max_size": rng.choice([1, 2, 3])}},
            {"type": "disk", "kw": {}},
            {"type": "disk", "kw": {"max_size": rng.choice([1, 2]), "with_lru_cache": rng.random() < 0.5,
                                    "lru_cache_size": 1}}]
    return allc


def _subsets(n):
    for mask in itertools.product([False, True], repeat=n):
        yield mask


def _gen_map(rng, big=False):
    while True:
        req = mapgen.gen_request(rng, storages=("dict",), allow_internal=False,   # internal axes: C01's subject
                                 max_size=3)
        if mapgen.request_size(req) <= (40 if big else 30) and (not big or mapgen.request_size(req) >= 6):
            break
    req = copy.deepcopy(req)
    for kv in req["inputs"]:
        if isinstance(kv[1], dict):
            pool = [f"{kv[0]}_a", f"{kv[0]}_b"]
            kv[1]["d"] = [rng.choice(pool) for _ in kv[1]["d"]]
    req["storage"] = "dict"
    return req


def generate(rng, tier, mult):
    quick = tier == "quick"
    n_pipes = (22 if quick else 100) * mult
    cases = []
    for _ in range(n_pipes):
        base = pipegen.gen_pipeline(rng, nmax=4)
        for f in base["funcs"]:                      # some single-output functions return None
            if len(f["outs"]) == 1 and rng.random() < 0.3:
                f["name"] = "nn" + f["name"]
        try:
            pl = pipegen.build_cached(base, slot="gen").pipeline
        except Exception:  # noqa: BLE001
            continue
        n = len(base["funcs"])
        masks = list(_subsets(n))
        if quick and len(masks) > 6:
            masks = [masks[-1]] + rng.sample(masks[1:-1], 4) + [masks[0]]
        for mask in masks:
            pd = copy.deepcopy(base)
            for f, m in zip(pd["funcs"], mask):
                f["cached"] = bool(m)
            caches = _cache_choices(rng, tier)
            if quick:
                caches = [caches[0]] + rng.sample(caches[1:], 2)
            for cache in caches:
                for _ in range(1 if quick else 2):
                    length = rng.randint(2, 6)
                    h = _gen_history(rng, pd, pl, length, p_mut=rng.choice([0.0, 0.15, 0.3]))
                    cases.append({"kind": "hist", "p": pd, "cache": cache, "h": h})
    for _ in range((44 if quick else 1000) * mult):
        cache = rng.choice(_cache_choices(rng, tier))
        req = _gen_map(rng)
        r = rng.random()
        second = None if r < 0.35 else {"replace": None if r < 0.65 else rng.randrange(len(req["funcs"]))}
        cases.append({"kind": "map", "req": req, "second": second, "cache": cache})
    # shared cache under a thread pool: LRUCache(shared=True) with a small max_size (evictions by the other workers
    # between the operations of one invocation), inputs with repeated values
    for _ in range((14 if quick else 220) * mult):
        req = _gen_map(rng, big=True)
        r = rng.random()
        second = None if r < 0.5 else {"replace": None if r < 0.8 else rng.randrange(len(req["funcs"]))}
        cases.append({"kind": "map", "req": req, "second": second, "par": {"workers": rng.choice([2, 4, 8])},
                      "cache": {"type": "lru", "kw": {"max_size": rng.choice([1, 1, 2, 3]), "shared": True}}})
    return cases


def nontrivial_key(c):
    if c["kind"] == "map":
        rep = any(isinstance(v, dict) and len(set(v["d"])) < len(v["d"]) for _, v in c["req"]["inputs"])
        return ("map", json.dumps(c["req"], sort_keys=True), json.dumps(c.get("second")), json.dumps(c.get("par")),
                json.dumps(c["cache"], sort_keys=True)) if rep else None
    ncalls = sum(1 for st in c["h"] if st["k"] == "call")
    if ncalls < 2 or not any(f.get("cached") for f in c["p"]["funcs"]):
        return None
    return ("hist", json.dumps(c["p"], sort_keys=True), json.dumps(c["cache"], sort_keys=True),
            json.dumps(c["h"], sort_keys=True))


def distribution(c):
    d = {"kind": c["kind"], "cache": c["cache"]["type"] + ("+max" if c["cache"].get("kw", {}).get("max_size") else "")}
    if c["kind"] == "map":
        sec = c.get("second")
        d["map_runs"] = "1" if sec is None else ("2 same" if sec["replace"] is None else "2 replace between")
        d["map_exec"] = "thread pool, shared cache" if c.get("par") else "sequential"
    if c["kind"] == "hist":
        d["len"] = len(c["h"])
        d["ncached"] = sum(1 for f in c["p"]["funcs"] if f.get("cached"))
        for st in c["h"]:
            d["step_" + st["k"]] = True
        d["cut"] = any(st["k"] == "call" and any(k in pipegen.outputs_of(c["p"]) for k, _ in st["kw"]) for st in c["h"])
        d["full"] = any(st["k"] == "call" and st["full"] for st in c["h"])
        d["none_cached"] = any(returns_none(f["name"]) and f.get("cached") for f in c["p"]["funcs"])
        calls = [json.dumps([st["o"], st["kw"], st["full"]]) for st in c["h"] if st["k"] == "call"]
        d["repeated_equal_call"] = len(set(calls)) < len(calls)
    return d


def finding_id(c, impl_obs, kind):
    return None


def shrink(c):
    out = []
    if c["kind"] != "hist":
        return out
    h = c["h"]
    for j in range(len(h)):
        d = dict(c)
        d["h"] = h[:j] + h[j + 1:]
        out.append(d)
    for j, st in enumerate(h):
        if st["k"] == "call":
            for i in range(len(st["kw"])):
                st2 = dict(st)
                st2["kw"] = st["kw"][:i] + st["kw"][i + 1:]
                d = dict(c)
                d["h"] = h[:j] + [st2] + h[j + 1:]
                out.append(d)
    fs = c["p"]["funcs"]
    for j in range(len(fs)):
        d = dict(c)
        d["p"] = {"funcs": fs[:j] + fs[j + 1:]}
        out.append(d)
    for j, f in enumerate(fs):
        if f.get("cached"):
            f2 = dict(f)
            f2["cached"] = False
            d = dict(c)
            d["p"] = {"funcs": fs[:j] + [f2] + fs[j + 1:]}
            out.append(d)
    return out
