"""C10 - Structural rewrites preserve what a pipeline computes."""
from __future__ import annotations

import contextlib
import io
import json
import warnings

from .. import pipegen
from ..coqlit import Err, Ok, cbool, clist, cnat, copt, cpair, cstr
from ..symfuncs import ListLog, canon

PROP = "C10"
RUN = "Run_C10"
THEOREMS = "Props/C10.v"
ANCHORS = [
    ("pipefunc/_pipeline/_base.py",
     ["Pipeline.add", "Pipeline.copy", "Pipeline.join", "Pipeline.__or__", "Pipeline.update_renames",
      "Pipeline.update_scope", "Pipeline._flatten_scopes", "Pipeline.nest_funcs", "Pipeline.split_disconnected",
      "Pipeline._connected_components", "Pipeline.add_mapspec_axis", "Pipeline.simplified_pipeline",
      "Pipeline.update_defaults", "Pipeline.drop", "Pipeline.leaf_nodes", "Pipeline._validate"]),
    ("pipefunc/_pipeline/_simplify.py", ["simplified_pipeline", "_identify_combinable_nodes", "_combine_nodes",
                                         "_output_name", "_sort", "_flatten_dict"]),
    ("pipefunc/_pipeline/_mapspec.py", ["add_mapspec_axis", "_axes_from_dims"]),
    ("pipefunc/_pipeline/_validation.py", ["validate_scopes", "validate_consistent_defaults"]),
    ("pipefunc/_pipefunc.py",
     ["PipeFunc.__init__", "PipeFunc.copy", "PipeFunc.update_renames", "PipeFunc.update_scope",
      "PipeFunc.update_defaults", "PipeFunc.update_bound", "PipeFunc._flatten_scopes", "PipeFunc.__getstate__",
      "PipeFunc.__setstate__", "PipeFunc.__call__", "NestedPipeFunc", "_NestedFuncWrapper",
      "_prepend_name_with_scope", "_rename_output_name", "_validate_identifier"]),
]
RULE = ("(1) rewrite cases: pipegen pipelines (1..5 structural functions: nullary / tuple-output functions, shared "
        "parameters, defaults, bound values, parameter renames) x compositions of 1..3 rewrites (copy, cloudpickle round "
        "trip, join / |, update_renames incl. swaps and dotted names, update_scope with '*' / subsets / exclude and its "
        "removal, nest_funcs, simplified_pipeline, split_disconnected) x every retained output x keyword sets (root "
        "arguments of the original and of the rewritten pipeline, defaults omitted, supplied intermediates, surplus / "
        "missing) x dotted / nested-dict / mixed calling conventions under pipeline(...), and Pipeline.map on all root "
        "arguments; (2) map cases: mapgen requests (no internal axes) x {copy, pickle, update_renames, update_scope, "
        "add_mapspec_axis with 1..3 stacked values of 1..2 parameters, simplified_pipeline} under map(storage='dict', "
        "parallel=False); (3) aliasing probes: rewrite, then a mutation (update_defaults, update_bound, update_renames, "
        "drop; add_mapspec_axis on MapSpec pipelines) of one side, state of the other side before / after; a family of "
        "pipelines with a shared dependency (known finding). non-trivial = a rewrite that changes names or structure on a "
        "pipeline with >= 2 functions, or any map / probe case that is not a bare copy; distinct by the whole case")
ASSUMPTIONS = ["Python object identity / aliasing is represented by the heap model Model/Alias.v and validated by the probes",
               "cloudpickle round trips are trusted to reproduce the pickled state (the model of pickle is the identity)",
               "values are strings (structural bodies); user functions do not raise",
               "renamings are one-to-one on the names of the pipeline (the domain of the property)",
               "map side: pipelines without internal axes; a parameter given a new axis is a scalar or is mapped by some "
               "function; nest_funcs / join / split of MapSpec pipelines are not exercised"]
TRUSTED = ["Model/Rewrite.v, Model/RewriteMap.v, Model/Alias.v mirror the rewrite methods of Pipeline / PipeFunc / "
           "NestedPipeFunc / _simplify.py / _mapspec.py by hand; tie = per-run differential execution",
           "Model/Pipe.v (C02) and Model/MapRun.v (C01) for the evaluation of the original pipelines",
           "harness/symfuncs.py, pipegen.py, mapsym.py, mapgen.py (structural bodies, builders)"]


# ------------------------------------------------------------------ Coq literals
def _alist(items):
    return clist([cpair(cstr(k), cstr(canon(v))) for k, v in items])


def _strs(l):
    return clist([cstr(x) for x in l])


def _sel(x):
    """update_scope selection: '*' -> None, a list -> Some l, None -> Some []"""
    if x == "*":
        return "None"
    return "(Some " + _strs(x or []) + ")"


def op_lit(o):
    k = o["op"]
    if k == "copy":
        return "OCopy"
    if k == "pickle":
        return "OPickle"
    if k == "join":
        return f"(OJoin {pipegen.pipeline_lit(o['q'])} {cbool(o.get('or', False))})"
    if k == "rename":
        return f"(ORename {_alist(o['r'])})"
    if k == "scope":
        return (f"(OScope {copt(o['s'], cstr)} {_sel(o['ins'])} {_sel(o['outs'])} {_strs(o.get('excl') or [])})")
    if k == "nest":
        new = o.get("new")
        return f"(ONest {_strs(o['names'])} {'None' if new is None else '(Some ' + _strs(new) + ')'})"
    if k == "simplify":
        return f"(OSimplify {cstr(o['o'])} {cbool(o['cons'])})"
    if k == "split":
        return f"(OSplit {cstr(o['o'])})"
    raise ValueError(k)


def _kw1(items):
    out = []
    for k, v in items:
        if isinstance(v, dict):
            out.append(cpair(cstr(k), "KD " + _alist(v["d"])))
        else:
            out.append(cpair(cstr(k), "KV " + cstr(canon(v))))
    return clist(out)


def call_lit(c):
    return ("{| c_o0 := %s; c_kw0 := %s; c_o1 := %s; c_kw1 := %s |}"
            % (cstr(c["o0"]), _alist(c["kw0"]), cstr(c["o1"]), _kw1(c["kw1"])))


# map side: literals through the constructor functions of Corr/Run_C10Map.v (mf, msp, mar, mvs, mva, mcs)
def _m_axes(ax):
    return clist([copt(a, cstr) for a in ax])


def _m_spec(sp):
    if sp is None:
        return "None"
    ins = clist([f"(mar {cstr(n)} {_m_axes(ax)})" for n, ax in sp["i"]])
    outs = clist([f"(mar {cstr(n)} {_m_axes(ax)})" for n, ax in sp["o"]])
    return f"(Some (msp {ins} {outs}))"


def _m_val(v):
    if isinstance(v, str):
        return f"(mvs {cstr(v)})"
    return f"(mva {clist([cnat(x) for x in v['sh']])} {clist([cstr(x) for x in v['d']])})"


def _m_env(kvs):
    return clist([cpair(cstr(k), _m_val(v)) for k, v in kvs])


def _m_func(fd):
    ret = fd.get("ret") if fd.get("ret") is not None else (fd.get("int") or [])
    return ("(mf %s %s %s %s %s %s %s %s)" % (
        cstr(fd["name"]), _strs(fd["outs"]), _strs(fd["params"]), _m_env(fd.get("bound") or []),
        _m_env(fd.get("defaults") or []), _m_spec(fd.get("spec")),
        clist([cnat(x) for x in (fd.get("int") or [])]), clist([cnat(x) for x in ret])))


def mop_lit(o):
    k = o["op"]
    if k == "copy":
        return "MCopy"
    if k == "pickle":
        return "MPickle"
    if k == "rename":
        return f"(MRename {clist([cpair(cstr(a), cstr(b)) for a, b in o['r']])})"
    if k == "scope":
        return f"(MScope {copt(o['s'], cstr)})"
    if k == "addaxis":
        return f"(MAddAxis {_strs(o['params'])} {cstr(o['axis'])})"
    if k == "simplify":
        return f"(MSimplify {cstr(o['o'])})"
    raise ValueError(k)


def _fdesc(fd):
    return ("(fd %s %s %s %s %s %s %s)" % (
        cstr(fd["name"]), _strs(fd["outs"]), clist([cpair(cstr(c), cstr(o)) for c, o in fd["params"]]),
        _alist(list(fd["sigd"].items())), _alist(list(fd["defs"].items())), _alist(list(fd["bound"].items())),
        cbool(bool(fd.get("cached", False)))))


def aop_lit(o):
    k = o["op"]
    if k == "copy":
        return "ACopy"
    if k == "pickle":
        return "APickle"
    if k == "join":
        return f"(AJoin {clist([_fdesc(f) for f in o['q']['funcs']])})"
    if k == "simplify":
        return f"(ASimplify {cstr(o['o'])} {cbool(o['cons'])})"
    if k == "split":
        return f"(ASplit {cstr(o['o'])})"
    if k == "rename":
        return f"(ARename {_alist(o['r'])})"
    if k == "scope":
        return f"(AScope {copt(o['s'], cstr)} {_sel(o['ins'])} {_sel(o['outs'])} {_strs(o.get('excl') or [])})"
    if k == "nest":
        new = o.get("new")
        return f"(ANest {_strs(o['names'])} {'None' if new is None else '(Some ' + _strs(new) + ')'})"
    raise ValueError(k)


def amut_lit(m):
    k = m["m"]
    if k == "defaults":
        return f"(MDefaults {_alist(m['d'])})"
    if k == "bound":
        return f"(MBound {cstr(m['o'])} {_alist(m['b'])})"
    if k == "renames":
        return f"(MRenames {_alist(m['r'])})"
    if k == "drop":
        return f"(MDrop {cstr(m['o'])})"
    raise ValueError(k)


def emit_case(c) -> str:
    k = c["kind"]
    if k == "alias":
        def call(x):
            return cpair(cstr(x[0]), _alist(x[1]))
        return ("(CAlias %s %s %s %s %s %s)" % (
            clist([_fdesc(f) for f in c["p"]["funcs"]]), aop_lit(c["rw"]), cbool(c["side"]), amut_lit(c["mut"]),
            call(c["callA"]), call(c["callB"])))
    if k == "rewrite":
        mi = c.get("mapin")
        mlit = "None" if not mi else f"(Some ({_alist(mi[0])}, {_alist(mi[1])}))"
        return (f"(CRewrite {pipegen.pipeline_lit(c['p'])} {clist([op_lit(o) for o in c['ops']])} "
                f"{clist([call_lit(x) for x in c['calls']])} {mlit})")
    if k == "aliasmap":
        return ("(CAliasMap (acs %s %s %s))" % (clist([_m_func(f) for f in c["req"]["funcs"]]), mop_lit(c["rw"]),
                                                cbool(c["side"])))
    if k == "map":
        rq = c["req"]
        internal = clist([cpair(cstr(n), clist([cnat(x) for x in v])) for n, v in (rq.get("internal") or [])])
        return ("(CMap (mcs %s %s %s %s %s))" % (
            clist([_m_func(f) for f in rq["funcs"]]), _m_env(c["inputs1"]), internal, mop_lit(c["mop"]),
            clist([_m_env(v) for v in c["variants"]])))
    raise ValueError(k)


# ------------------------------------------------------------------ implementation driver
def _quiet():
    return contextlib.redirect_stdout(io.StringIO())


def _res(f):
    try:
        return Ok(f())
    except Exception as e:  # noqa: BLE001
        return Err(e)


def _tup(f):
    return f.output_name if isinstance(f.output_name, tuple) else (f.output_name,)


def prim_names(f):
    from pipefunc import NestedPipeFunc

    if isinstance(f, NestedPipeFunc):
        return [n for g in f.pipeline.functions for n in prim_names(g)]
    return [f.__name__]


def find_logs(pl):
    """The call logs the user functions of this pipeline write to (one per pipeline by construction, one per
    function after a pickle round trip: PipeFunc.__getstate__ pickles every callable separately)."""
    from pipefunc import NestedPipeFunc

    logs = []

    def walk(f):
        if isinstance(f, NestedPipeFunc):
            # the pipeline that is actually run: after unpickling, `func` holds its own copy of the inner pipeline
            runner = getattr(getattr(f.func, "func", None), "__self__", None)
            inner = getattr(runner, "pipeline", None) or f.pipeline
            for g in inner.functions:
                walk(g)
        else:
            lg = getattr(f.func, "log", None)
            if lg is not None and all(lg is not x for x in logs):
                logs.append(lg)

    for f in pl.functions:
        walk(f)
    return logs


def find_log(pl):
    logs = find_logs(pl)
    return logs[0] if logs else None


def struct(pl):
    out = []
    for f in pl.functions:
        out.append([list(_tup(f)), list(f.parameters),
                    sorted([k, canon(v)] for k, v in f.defaults.items()),
                    sorted([k, canon(v)] for k, v in f._bound.items()),
                    sorted(prim_names(f))])
    return sorted(out, key=lambda e: e[0])


def _scope_arg(x):
    if x == "*" or x is None:
        return x
    return set(x)


def apply_op(pl, o):
    """Apply one rewrite to the real pipeline; returns the rewritten pipeline (pl itself for in-place ops)."""
    import cloudpickle

    k = o["op"]
    if k == "copy":
        return pl.copy()
    if k == "pickle":
        return cloudpickle.loads(cloudpickle.dumps(pl))
    if k == "join":
        q = pipegen.build(o["q"], log=find_log(pl)).pipeline
        return (pl | q) if o.get("or") else pl.join(q)
    if k == "rename":
        pl.update_renames(dict(o["r"]))
        return pl
    if k == "scope":
        pl.update_scope(o["s"], _scope_arg(o["ins"]), _scope_arg(o["outs"]), set(o["excl"]) if o.get("excl") else None)
        return pl
    if k == "nest":
        new = o.get("new")
        if new is not None:
            new = new[0] if len(new) == 1 else tuple(new)
        names = "*" if o.get("star") else set(o["names"])
        pl.nest_funcs(names, new)
        return pl
    if k == "simplify":
        return pl.simplified_pipeline(o["o"], conservatively_combine=o["cons"])
    if k == "split":
        parts = pl.split_disconnected()
        for q in parts:
            if o["o"] in q.all_output_names:
                return q
        raise KeyError(o["o"])
    raise ValueError(k)


def apply_ops(pl, ops):
    """Returns (status, structs, final pipeline or None)."""
    structs = []
    for i, o in enumerate(ops):
        try:
            pl = apply_op(pl, o)
        except Exception as e:  # noqa: BLE001
            return [Err(e), i], structs, None
        structs.append(struct(pl))
    return ["ok"], structs, pl


def _kwargs1(items):
    return {k: ({n: v for n, v in x["d"]} if isinstance(x, dict) else x) for k, x in items}


def _call(pl, logs, o, kw):
    for lg in logs:
        lg.clear()
    r = _res(lambda: pl(o, **kw))
    if isinstance(r, Ok):
        r = Ok(canon(r.v))
    return [r, sorted(x for lg in logs for x in lg.read())]


def _map_all(pl, inputs):
    """Pipeline.map on inputs for all root arguments: [name, value] of every output, sorted by name."""
    try:
        r = pl.map(dict(inputs), run_folder=None, storage="dict", parallel=False)
        return Ok([[o, canon(r[o].output)] for o in sorted(pl.all_output_names)])
    except Exception as e:  # noqa: BLE001
        return Err(e)


def run_impl(c):
    k = c["kind"]
    with _quiet(), warnings.catch_warnings():
        warnings.simplefilter("ignore")
        if k == "rewrite":
            try:
                b0 = pipegen.build(c["p"])
                b1 = pipegen.build(c["p"])
            except Exception:  # noqa: BLE001
                return ["bad-case"]
            status, structs, pl = apply_ops(b1.pipeline, c["ops"])
            if pl is None:
                return [status, structs, [], []]
            logs1 = find_logs(pl)
            obs = []
            for x in c["calls"]:
                obs.append(_call(b0.pipeline, [b0.log], x["o0"], dict(x["kw0"]))
                           + _call(pl, logs1, x["o1"], _kwargs1(x["kw1"])))
            mobs = []
            if c.get("mapin"):
                mobs = [_map_all(b0.pipeline, c["mapin"][0]), _map_all(pl, c["mapin"][1])]
            return [status, structs, obs, mobs]
        if k == "map":
            return _run_map_case(c)
        if k == "alias":
            return _run_alias_case(c)
        if k == "aliasmap":
            return _run_aliasmap_case(c)
    raise ValueError(k)


def _mstate(pl):
    _clear_caches(pl)
    out = []
    for f in pl.functions:
        ms = f.mapspec
        if ms is None:
            txt = "None"
        else:
            ins = sorted(ms.inputs, key=lambda a: a.name)
            txt = ((", ".join(str(a) for a in ins) if ins else "...") + " -> " + ", ".join(str(a) for a in ms.outputs))
        out.append([list(_tup(f)), list(f.parameters), txt])
    return sorted(out, key=lambda e: e[0])


def _apply_mop(pl, o):
    import cloudpickle

    k = o["op"]
    if k == "copy":
        return pl.copy()
    if k == "pickle":
        return cloudpickle.loads(cloudpickle.dumps(pl))
    if k == "rename":
        pl.update_renames(dict(o["r"]))
    elif k == "scope":
        pl.update_scope(o["s"], "*", "*")
    elif k == "addaxis":
        pl.add_mapspec_axis(*o["params"], axis=o["axis"])
    elif k == "drop":
        pl.drop(output_name=o["o"])
    else:
        raise ValueError(k)
    return pl


def _aliasmap_setup(c):
    from .. import mapsym

    P = mapsym.build_pipeline(c["req"], mapsym.CallLog())
    if c["rw"]["op"] in ("copy", "pickle"):
        A = P
        a0 = _mstate(A)
        B = _apply_mop(P, c["rw"])
    else:
        A = P.copy()
        a0 = _mstate(A)
        B = _apply_mop(P, c["rw"])
    return A, B, a0


def _run_aliasmap_case(c):
    try:
        A, B, a0 = _aliasmap_setup(c)
    except Exception as e:  # noqa: BLE001
        return [Err(e), [], [], [], []]
    a1 = _mstate(A)
    X, Y = (A, B) if c["side"] else (B, A)
    y0 = _mstate(Y)
    try:
        _apply_mop(X, c["mut"])
    except Exception as e:  # noqa: BLE001
        return [Err(e), a0, a1, y0, []]
    return [["ok"], a0, a1, y0, _mstate(Y)]


NEW_PIPELINE_OPS = ("copy", "pickle", "join", "simplify", "split")


def _clear_caches(pl):
    """Drop the memoised properties (what any later update of the object would do): the probes look at the state
    itself, not at a cached view of it."""
    from pipefunc import NestedPipeFunc

    for f in pl.functions:
        f._clear_internal_cache()
        if isinstance(f, NestedPipeFunc):
            _clear_caches(f.pipeline)
    pl._clear_internal_cache()


def alias_state(pl, call):
    _clear_caches(pl)
    fs = []
    for f in pl.functions:
        fs.append([list(_tup(f)), list(f.parameters),
                   sorted([k, canon(v)] for k, v in f.defaults.items()),
                   sorted([k, canon(v)] for k, v in f._bound.items()),
                   sorted([k, v] for k, v in f._renames.items() if k != v),
                   "None" if f.mapspec is None else str(f.mapspec),
                   sorted(prim_names(f))])
    r = _res(lambda: pl(call[0], **dict(call[1])))
    if isinstance(r, Ok):
        r = Ok(canon(r.v))
    return [sorted(fs, key=lambda e: e[0]), r]


def apply_mut(pl, m):
    k = m["m"]
    if k == "defaults":
        pl.update_defaults(dict(m["d"]))
    elif k == "bound":
        pl[m["o"]].update_bound(dict(m["b"]))
    elif k == "renames":
        pl.update_renames(dict(m["r"]))
    elif k == "drop":
        pl.drop(output_name=m["o"])
    else:
        raise ValueError(k)


def _alias_setup(c):
    """Returns (A, B) after the rewrite, and the state of A before it."""
    P = pipegen.build(c["p"]).pipeline
    if c["rw"]["op"] in NEW_PIPELINE_OPS:
        A = P
        a0 = alias_state(A, c["callA"])
        B = apply_op(P, c["rw"])
    else:
        A = P.copy()
        a0 = alias_state(A, c["callA"])
        B = apply_op(P, c["rw"])
    return A, B, a0


def _run_alias_case(c):
    try:
        A, B, a0 = _alias_setup(c)
    except Exception as e:  # noqa: BLE001
        return [Err(e), [], [], [], []]
    a1 = alias_state(A, c["callA"])
    X, Y, cy = (A, B, c["callB"]) if c["side"] else (B, A, c["callA"])
    y0 = alias_state(Y, cy)
    try:
        apply_mut(X, c["mut"])
    except Exception as e:  # noqa: BLE001
        return [Err(e), a0, a1, y0, []]
    y1 = alias_state(Y, cy)
    return [["ok"], a0, a1, y0, y1]


def _specs_obs(pl, order):
    out = []
    for f in pl.functions:
        ms = f.mapspec
        if ms is None:
            txt = "None"
        else:
            ins = sorted(ms.inputs, key=lambda a: a.name)
            txt = ((", ".join(str(a) for a in ins) if ins else "...") + " -> " + ", ".join(str(a) for a in ms.outputs))
        out.append([list(_tup(f)), txt])
    return sorted(out, key=lambda e: e[0])


def _map_results(pl, names, inputs, internal):
    from .. import mapsym

    try:
        r = pl.map({k: mapsym.make_input(v) for k, v in inputs}, run_folder=None, internal_shapes=internal,
                   storage="dict", parallel=False)
        return ["ok", [[n, mapsym.arr_obs(r[n].output)] for n in names]]
    except Exception as e:  # noqa: BLE001
        return Err(e)


def _run_map_case(c):
    import cloudpickle

    from .. import mapsym

    rq, o = c["req"], c["mop"]
    names = [x for fd in rq["funcs"] for x in fd["outs"]]
    internal = mapsym.internal_arg(rq)
    try:
        p0 = mapsym.build_pipeline(rq, mapsym.CallLog())
        p1 = mapsym.build_pipeline(rq, mapsym.CallLog())
    except Exception:  # noqa: BLE001
        return ["bad-case"]
    ren = {}
    try:
        k = o["op"]
        if k == "copy":
            p1 = p1.copy()
        elif k == "pickle":
            p1 = cloudpickle.loads(cloudpickle.dumps(p1))
        elif k == "rename":
            ren = dict(o["r"])
            p1.update_renames(ren)
        elif k == "scope":
            ren = {n: _prepend(n, o["s"]) for n in _names(p1)}
            p1.update_scope(o["s"], "*", "*")
        elif k == "addaxis":
            p1.add_mapspec_axis(*o["params"], axis=o["axis"])
        elif k == "simplify":
            p1 = p1.simplified_pipeline(o["o"])
    except Exception as e:  # noqa: BLE001
        return [Err(e), [], [], []]
    origs = [_map_results(p0, names, v, internal) for v in c["variants"]]
    internal1 = {ren.get(n, n): v for n, v in internal.items()} if internal else internal
    rew = _map_results(p1, [ren.get(n, n) for n in names], c["inputs1"], internal1)
    return [["ok"], _specs_obs(p1, names), origs, rew]


# ------------------------------------------------------------------ generator
SCOPES = ["s", "t", "sc"]


def _prepend(name, scope):
    if scope is None:
        return name.split(".", 1)[1] if "." in name else name
    if name.startswith(scope + "."):
        return name
    if "." in name:
        name = name.split(".", 1)[1]
    return f"{scope}.{name}"


def _names(pl):
    ns = []
    for f in pl.functions:
        for n in list(f.parameters) + list(_tup(f)):
            if n not in ns:
                ns.append(n)
    return ns


def _gen_q(rng, pl, idx):
    """A second pipeline for join: fresh function / output names, shares root names, may consume outputs of pl
    or produce one of its root arguments (never both: the union stays acyclic), rarely collides."""
    p_outs = sorted(pl.all_output_names)
    p_roots = list(pl.topological_generations.root_args)
    mode = rng.random()
    consume = mode < 0.5 and p_outs
    funcs, avail, k = [], [], 0
    for i in range(rng.randint(1, 3)):
        nouts = rng.choice([1, 1, 1, 2])
        outs = [f"q{idx}{k + j}" for j in range(nouts)]
        k += nouts
        names = []
        for _ in range(rng.choice([0, 1, 1, 2, 2, 3])):
            r = rng.random()
            if avail and r < 0.4:
                c = rng.choice(avail)
            elif consume and r < 0.75:
                c = rng.choice(p_outs)
            else:
                c = rng.choice(pipegen.ROOTS)
            if c not in names:
                names.append(c)
        params = [[c, c.replace(".", "_")] for c in names]      # the callable's own names are identifiers
        sigd, defs, bound = {}, {}, {}
        ntrail = rng.choice([0, 0, 1, 2]) if names else 0
        for c, o in params[len(params) - ntrail:] if ntrail else []:
            sigd[o] = "d_" + c
        for c, _o in params:
            r = rng.random()
            if r < 0.1:
                bound[c] = f"BQ{i}_{c}"
            elif r < 0.2:
                defs[c] = "d_" + c
        funcs.append({"name": f"g{idx}{i}", "outs": outs, "params": params, "sigd": sigd, "defs": defs, "bound": bound})
        avail += outs
    if not consume and mode < 0.7 and p_roots:              # produce a root argument of p
        cand = [r for r in p_roots if all(r != c for f in funcs for c, _ in f["params"])]
        if cand:
            funcs[-1]["outs"][0] = rng.choice(cand)
    if mode >= 0.95 and p_outs:                             # collision
        funcs[0]["outs"][0] = rng.choice(p_outs)
    return {"funcs": funcs}


def _gen_op(rng, pl, counter):
    """Choose one rewrite for the current real pipeline."""
    names = _names(pl)
    outs = sorted(pl.all_output_names)
    kind = rng.choice(["copy", "pickle", "join", "rename", "rename", "scope", "scope", "unscope", "nest", "nest",
                       "simplify", "simplify", "split"])
    if kind in ("copy", "pickle"):
        return {"op": kind}
    if kind == "join":
        return {"op": "join", "q": _gen_q(rng, pl, counter), "or": rng.random() < 0.5}
    if kind == "rename":
        r = rng.random()
        if r < 0.2 and len(names) >= 2:                     # swap two names
            a, b = rng.sample(names, 2)
            return {"op": "rename", "r": [[a, b], [b, a]]}
        ks = rng.sample(names, rng.randint(1, min(3, len(names))))
        ren = []
        for j, k in enumerate(ks):
            base = k.replace(".", "_")
            new = f"n{counter}{j}_{base}" if rng.random() < 0.8 else f"{rng.choice(SCOPES)}.n{counter}{j}_{base}"
            ren.append([k, new])
        if rng.random() < 0.05:
            ren.append(["unused_key", "zz"])
        return {"op": "rename", "r": ren}
    if kind == "scope":
        def sel(pool):
            r = rng.random()
            if r < 0.55:
                return "*"
            if r < 0.7:
                return None
            return sorted(rng.sample(pool, rng.randint(1, len(pool)))) if pool else None
        roots = list(pl.topological_generations.root_args)
        ins, os_ = sel(roots), sel(outs)
        if ins is None and os_ is None:
            ins = "*"
        excl = sorted(rng.sample(names, 1)) if rng.random() < 0.2 else []
        sc = rng.choice(SCOPES) if rng.random() < 0.95 else rng.choice(names)
        return {"op": "scope", "s": sc, "ins": ins, "outs": os_, "excl": excl}
    if kind == "unscope":
        return {"op": "scope", "s": None, "ins": "*", "outs": "*", "excl": []}
    if kind == "nest":
        fs = list(pl.functions)
        if rng.random() < 0.15:
            chosen = fs
            star = rng.random() < 0.5
        else:
            star = False
            leaf = rng.choice(fs)
            anc = [g for g in fs if g is not leaf and g.output_name in pl.func_dependencies(leaf)]
            if anc and rng.random() < 0.85:
                chosen = [leaf] + rng.sample(anc, rng.randint(1, len(anc)))
            else:
                chosen = rng.sample(fs, min(len(fs), rng.randint(1, 3)))
        names_ = [rng.choice(_tup(f)) for f in chosen]
        all_o = [o for f in chosen for o in _tup(f)]
        r = rng.random()
        if r < 0.3:
            new = None
        elif r < 0.6:
            new = [rng.choice(_tup(chosen[0]))]
        else:
            new = sorted(set(rng.sample(all_o, rng.randint(1, len(all_o))) + [rng.choice(_tup(chosen[0]))]))
            if rng.random() < 0.5:
                rng.shuffle(new)
        if new is not None and rng.random() < 0.85:         # keep what functions outside the group consume
            inside = {id(f) for f in chosen}
            for g in pl.functions:
                if id(g) not in inside:
                    for a in g.parameters:
                        if a in all_o and a not in g._bound and a not in new:
                            new.append(a)
        if rng.random() < 0.03:
            new = ["nope"]
        d = {"op": "nest", "names": sorted(names_), "new": new}
        if star:
            d["star"] = True
        return d
    if kind == "simplify":
        return {"op": "simplify", "o": rng.choice(outs), "cons": rng.random() < 0.4}
    if kind == "split":
        return {"op": "split", "o": rng.choice(outs)}
    raise ValueError(kind)


def _op_renaming(pl, o):
    """{current name: new name} that the op states, from the real pipeline BEFORE the op (mirrors the doc)."""
    if o["op"] == "rename":
        return dict(o["r"])
    if o["op"] == "scope":
        all_in = set(pl.topological_generations.root_args)
        all_out = set(pl.all_output_names)
        i = all_in if o["ins"] == "*" else (set(o["ins"] or []) & all_in)
        u = all_out if o["outs"] == "*" else (set(o["outs"] or []) & all_out)
        t = (i | u) - set(o.get("excl") or [])
        return {n: _prepend(n, o["s"]) for n in t}
    return {}


def _conv(rng, kw1):
    """Present flat keywords (final names) in dotted / nested-dict / mixed form."""
    scoped = [k for k, _ in kw1 if "." in k]
    if not scoped:
        return [[k, v] for k, v in kw1]
    mode = rng.choice(["dotted", "nested", "nested", "mixed"])
    out, groups = [], {}
    for k, v in kw1:
        if "." in k and (mode == "nested" or (mode == "mixed" and rng.random() < 0.5)) and k.count(".") == 1:
            sc, n = k.split(".", 1)
            if sc not in groups:
                groups[sc] = {"d": []}
                out.append([sc, groups[sc]])
            groups[sc]["d"].append([n, v])
        else:
            out.append([k, v])
    return out


class _Rho(dict):
    """orig name -> final name; names the original pipeline does not know go through the same renamings"""

    def __init__(self, names, rens):
        super().__init__()
        self.rens = rens
        for n in names:
            self[n] = self.through(n)

    def through(self, n):
        for r in self.rens:
            n = r.get(n, n)
        return n

    def get(self, n, default=None):  # noqa: ARG002
        return self[n] if n in self else self.through(n)


def _gen_calls(rng, b0, pl, rho, tier):
    p0 = b0.pipeline
    inv = {}
    for a, b in rho.items():
        inv.setdefault(b, a)
    outs0 = list(p0.all_output_names)
    final_outs = set(pl.all_output_names)
    calls = []
    per_out = 2 if tier == "quick" else 3
    defaults0 = p0.defaults
    for o0 in sorted(outs0):
        o1 = rho.get(o0, o0)
        if o1 not in final_outs:
            continue
        sets = []
        try:
            roots0 = list(p0.root_args(o0))
        except Exception:  # noqa: BLE001
            roots0 = []
        sets.append(("roots0", roots0))
        try:
            roots1 = [inv.get(n, n) for n in pl.root_args(o1)]
            sets.append(("roots1", roots1))
        except Exception:  # noqa: BLE001
            pass
        nd = [n for n in roots0 if n not in defaults0]
        if len(nd) < len(roots0):
            keep = [n for n in roots0 if n in defaults0 and rng.random() < 0.5]
            sets.append(("nodefault", nd + keep))
        try:
            combos = sorted(p0.arg_combinations(o0))
            if len(combos) > 1:
                sets.append(("cut", list(rng.choice(combos))))
        except Exception:  # noqa: BLE001
            pass
        if rng.random() < 0.15:
            sets.append(("surplus", roots0 + [rng.choice(["fresh", "x", "w"] + outs0)]))
        if rng.random() < 0.15 and roots0:
            sets.append(("missing", roots0[:-1]))
        uniq = []
        for tag, names in sets:
            names = list(dict.fromkeys(n for n in names if n != o0))
            if sorted(names) not in [sorted(u[1]) for u in uniq]:
                uniq.append((tag, names))
        first = uniq[:2]
        rest = uniq[2:]
        rng.shuffle(rest)
        for tag, names in first + rest[: max(0, per_out - 2)]:
            rng.shuffle(names)
            kw0 = [[n, pipegen.value_for(rng, n)] for n in names]
            kw1 = _conv(rng, [[rho.get(n, n), v] for n, v in kw0])
            calls.append({"o0": o0, "kw0": kw0, "o1": o1, "kw1": kw1, "tag": tag})
    return calls


def _shared_dependency_pipeline(rng):
    """f0 feeds two functions with the same root arguments whose consumer has more root arguments: the shape on
    which simplified_pipeline puts f0 into two groups (known finding simplify-shared-dependency)."""
    def fn(name, outs, params):
        return {"name": name, "outs": outs, "params": [[p, p] for p in params], "sigd": {}, "defs": {}, "bound": {}}
    o0 = ["o0", "o9"] if rng.random() < 0.3 else ["o0"]
    fs = [fn("f0", o0, ["x"]), fn("f1", ["o1"], ["o0"]), fn("f2", ["o2"], [rng.choice(o0)]),
          fn("f3", ["o3"], ["o1", "o2", "w"])]
    if rng.random() < 0.5:
        fs.append(fn("f4", ["o4"], ["o3", "y"]))
    rng.shuffle(fs)
    return {"funcs": fs}


def _cross_group_pipeline(rng):
    """Two (or three) combinable groups that exchange an INTERIOR output: the producer group {g_in -> g_head} (root
    argument x) computes the interior output `inner`, which a function INSIDE the consumer group
    {c_in(y, inner) -> c_mid -> c_head(g_head, c_mid)} (root arguments x, y) takes - with or without a default for it.
    The names are chosen so that the head of the consumer group sorts alphabetically BEFORE the head of the producer
    group, or after it (simplified_pipeline orders the groups by the head's output name, not topologically); every
    output that another group consumes has to stay an output of the NestedPipeFunc that computes it."""
    def fn(name, outs, params, sigd=None, defs=None):
        return {"name": name, "outs": outs, "params": [[p, p] for p in params], "sigd": sigd or {}, "defs": defs or {},
                "bound": {}}
    consumer_first = rng.random() < 0.65
    if consumer_first:
        c_in, c_mid, c_head, inner, g_head, extra = "o1", "o2", "o3", "o5", "o8", "o9"
    else:
        inner, g_head, c_in, c_mid, c_head, extra = "o0", "o1", "o4", "o5", "o6", "o9"
    inner_outs = [inner] if rng.random() < 0.7 else sorted([inner, extra])      # the interior output may be a tuple member
    how = rng.choice(["none", "none", "sig", "defs"])                           # default for the consumed interior name
    sigd = {inner: "d_" + inner} if how == "sig" else {}
    defs = {inner: "d_" + inner} if how == "defs" else {}
    fs = [fn("f0", inner_outs, ["x"]),
          fn("f1", [g_head], [inner] if rng.random() < 0.8 else [inner, "x"]),
          fn("f2", [c_in], ["y", inner], sigd, defs),
          fn("f3", [c_mid], [c_in]),
          fn("f4", [c_head], [g_head, c_mid])]
    target = c_head
    if rng.random() < 0.35:                                                      # an uncombined consumer downstream
        fs.append(fn("f5", ["o7" if consumer_first else "o8"], [c_head, "w"]))
        if rng.random() < 0.5:
            target = fs[-1]["outs"][0]
    rng.shuffle(fs)
    return {"funcs": fs}, [{"op": "simplify", "o": target, "cons": rng.random() < 0.3}]


def gen_rewrite_case(rng, tier):
    if rng.random() < 0.03:
        pd = _shared_dependency_pipeline(rng)
        o = rng.choice(["o3", "o3", "o4"]) if any(f["name"] == "f4" for f in pd["funcs"]) else "o3"
        return {"kind": "rewrite", "p": pd, "ops": [{"op": "simplify", "o": o, "cons": rng.random() < 0.5}], "calls": [],
                "mapin": None}
    forced = None
    if rng.random() < 0.06:
        pd, forced = _cross_group_pipeline(rng)
        if rng.random() < 0.25:
            forced = forced + [rng.choice([{"op": "copy"}, {"op": "pickle"}])]
    else:
        pd = pipegen.gen_pipeline(rng, nmax=5, nmin=1 if rng.random() < 0.1 else 2)
    with _quiet(), warnings.catch_warnings():
        warnings.simplefilter("ignore")
        try:
            b0 = pipegen.build(pd)
            pl = pipegen.build(pd).pipeline
        except Exception:  # noqa: BLE001
            return None
        nops = len(forced) if forced else rng.choice([1, 1, 2, 2, 3])
        ops = []
        names0 = _names(pl)
        rens = []
        ok = True
        for i in range(nops):
            o = r = None
            for _attempt in range(0 if forced else 8):
                o = _gen_op(rng, pl, i)
                r = _op_renaming(pl, o)
                cur = _names(pl)
                if len({r.get(n, n) for n in cur}) != len(cur):      # not one-to-one on the pipeline's names
                    o = None
                    continue
                try:                                                 # prefer requests that are accepted
                    apply_op(pl.copy(), o)
                    break
                except Exception:  # noqa: BLE001
                    if rng.random() < 0.1:
                        break
                    o = None
            if forced:
                o, r = forced[i], {}
            if o is None:
                o, r = {"op": "copy"}, {}
            ops.append(o)
            try:
                pl = apply_op(pl, o)
            except Exception:  # noqa: BLE001
                ok = False
                break
            rens.append(r)
        rho = _Rho(names0, rens)
        calls = _gen_calls(rng, b0, pl, rho, tier) if ok else []
        mapin = None
        if ok and (forced or rng.random() < 0.5):
            try:
                roots0 = list(b0.pipeline.topological_generations.root_args)
                in0 = [[r_, pipegen.value_for(rng, r_)] for r_ in roots0]
                img = {rho.get(k): v for k, v in in0}
                in1 = [[n, img.get(n, "v_" + n.replace(".", "_"))] for n in pl.topological_generations.root_args]
                if all(rho.get(k) in dict(in1) for k, _ in in0):
                    mapin = [in0, in1]
            except Exception:  # noqa: BLE001
                mapin = None
    return {"kind": "rewrite", "p": pd, "ops": ops, "calls": calls, "mapin": mapin}


def _relabel(v, tag):
    if isinstance(v, str):
        return f"{v}{tag}"
    return {"sh": list(v["sh"]), "d": [f"{x}{tag}" for x in v["d"]], "as": "nd"}


def _stack(vs):
    """Stack input values of equal shape along a new last axis."""
    if isinstance(vs[0], str):
        return {"sh": [len(vs)], "d": list(vs), "as": "nd"}
    n = len(vs[0]["d"])
    return {"sh": list(vs[0]["sh"]) + [len(vs)], "d": [v["d"][i] for i in range(n) for v in vs], "as": "nd"}


def _zip_axis_case(rng):
    """add_mapspec_axis(p0, axis=<an axis that MapSpecs of p0 already have, as their last axis>): zipping, no dimension
    is added.  One or two consumers map p0 (also along other axes), one consumer takes p0 WHOLE without a MapSpec (it
    has to get `p0[:, .., axis]` of the SAME rank), optionally a function downstream of it."""
    def arr(name, sh):
        n = 1
        for d in sh:
            n *= d
        return {"sh": list(sh), "d": [f"{name}_{i}" for i in range(n)], "as": "nd"}
    def fn(name, outs, params, spec):
        return {"name": name, "outs": outs, "params": params, "spec": spec, "int": [], "bound": [], "defaults": []}
    a, b = rng.randint(1, 3), rng.randint(1, 3)
    rank2 = rng.random() < 0.5
    if rank2:
        axis = "j"
        funcs = [fn("f0", ["y0"], ["p0", "x0"], {"i": [["p0", ["i", "j"]], ["x0", ["i"]]], "o": [["y0", ["i", "j"]]]})]
        if rng.random() < 0.6:
            funcs.append(fn("f2", ["y2"], ["p0"], {"i": [["p0", [None, "j"]]], "o": [["y2", ["j"]]]}))
        inputs = [["p0", arr("p0", [a, b])], ["x0", arr("x0", [a])]]
    else:
        axis = "i"
        funcs = [fn("f0", ["y0"], ["x0", "p0"], {"i": [["x0", ["i"]], ["p0", ["i"]]], "o": [["y0", ["i"]]]})]
        if rng.random() < 0.4:
            funcs.append(fn("f2", ["y2"], ["p0", "c0"], {"i": [["p0", ["i"]]], "o": [["y2", ["i"]]]}))
        inputs = [["x0", arr("x0", [a])], ["p0", arr("p0", [a])]]
        if any(f["name"] == "f2" for f in funcs):
            inputs.append(["c0", "C0"])
    funcs.append(fn("f1", ["y1"], ["p0"], None))                         # takes p0 whole
    if rng.random() < 0.4:
        funcs.append(fn("f3", ["y3"], ["y1", "x0"] if rng.random() < 0.5 else ["y1"], None))
    rq = {"funcs": funcs, "inputs": inputs, "internal": [], "storage": "dict"}
    return {"kind": "map", "req": rq, "mop": {"op": "addaxis", "params": ["p0"], "axis": axis}, "inputs1": inputs,
            "variants": [inputs]}


def gen_map_case(rng, tier):
    from .. import mapgen

    if rng.random() < 0.12:
        return _zip_axis_case(rng)
    while True:
        rq = mapgen.gen_request(rng, max_funcs=3, max_size=3, allow_internal=False, storages=("dict",))
        if mapgen.request_size(rq) <= 18:
            break
    inputs = rq["inputs"]
    names = []
    for fd in rq["funcs"]:
        for n in fd["params"] + fd["outs"]:
            if n not in names:
                names.append(n)
    outs = [o for fd in rq["funcs"] for o in fd["outs"]]
    kind = rng.choice(["copy", "pickle", "rename", "scope", "scope", "addaxis", "addaxis", "addaxis", "addaxis",
                       "simplify"])
    variants = [inputs]
    inputs1 = inputs
    if kind in ("copy", "pickle"):
        mop = {"op": kind}
    elif kind == "rename":
        ks = rng.sample(names, rng.randint(1, min(3, len(names))))
        r = [[k, f"n{j}_{k}"] for j, k in enumerate(ks)]
        mop = {"op": "rename", "r": r}
        rd = dict(r)
        inputs1 = [[rd.get(k, k), v] for k, v in inputs]
    elif kind == "scope":
        sc = rng.choice(SCOPES)
        mop = {"op": "scope", "s": sc}
        inputs1 = [[f"{sc}.{k}", v] for k, v in inputs]
    elif kind == "addaxis":
        # an array that no function maps over would have to become an array OF arrays (not representable
        # in the model's value domain): parameters are scalars or arrays with a MapSpec entry
        mapped = {n for fd in rq["funcs"] if fd.get("spec") for n, _ in fd["spec"]["i"]}
        roots = [k for k, v in inputs if isinstance(v, str) or k in mapped]
        if not roots:
            return gen_map_case(rng, tier)
        qs = rng.sample(roots, 1 if rng.random() < 0.75 or len(roots) < 2 else 2)
        n = rng.randint(1, 3)
        mop = {"op": "addaxis", "params": qs, "axis": "kk"}
        variants = []
        for i in range(n):
            variants.append([[k, (_relabel(v, f"@{i}") if k in qs else v)] for k, v in inputs])
        inputs1 = []
        for j, (k, v) in enumerate(inputs):
            if k in qs:
                inputs1.append([k, _stack([var[j][1] for var in variants])])
            else:
                inputs1.append([k, v])
    else:
        cand = []
        prod = {o: fd for fd in rq["funcs"] for o in fd["outs"]}

        def ups(o, seen):
            for q in prod[o]["params"]:
                if q in prod and q not in [b for b, _ in prod[o].get("bound") or []] and q not in seen:
                    seen.append(q)
                    ups(q, seen)
            return seen
        for o in outs:
            u = ups(o, [])
            if not u or any(prod[q].get("spec") for q in u):
                cand.append(o)
        if not cand:
            return gen_map_case(rng, tier)
        mop = {"op": "simplify", "o": rng.choice(cand)}
    return {"kind": "map", "req": rq, "mop": mop, "inputs1": inputs1, "variants": variants}


def _root_call(rng, pl):
    outs = sorted(pl.all_output_names)
    rng.shuffle(outs)
    for o in outs:
        try:
            ra = list(pl.root_args(o))
            return [o, [[n, pipegen.value_for(rng, n)] for n in ra]]
        except Exception:  # noqa: BLE001
            continue
    return [outs[0], []]


def _gen_mut(rng, X):
    """A mutation of pipeline X that pipefunc accepts."""
    fs = list(X.functions)
    for _ in range(10):
        k = rng.choice(["defaults", "bound", "renames", "drop"])
        if k == "defaults":
            cand = sorted({a for f in fs for a in f.parameters if a not in f._bound})
            if cand:
                n = rng.choice(cand)
                m = {"m": "defaults", "d": [[n, "ND_" + n.replace(".", "_")]]}
            else:
                continue
        elif k == "bound":
            f = rng.choice(fs)
            cand = [a for a in f.parameters if a not in f._defaults]
            if not cand:
                continue
            n = rng.choice(cand)
            m = {"m": "bound", "o": rng.choice(_tup(f)), "b": [[n, "NB_" + n.replace(".", "_")]]}
        elif k == "renames":
            names = _names(X)
            ks = rng.sample(names, rng.randint(1, min(2, len(names))))
            m = {"m": "renames", "r": [[n, f"m{j}_" + n.replace(".", "_")] for j, n in enumerate(ks)]}
        else:
            m = {"m": "drop", "o": rng.choice(sorted(X.all_output_names))}
        return m
    return {"m": "drop", "o": sorted(X.all_output_names)[0]}


def gen_alias_case(rng, tier):
    pd = pipegen.gen_pipeline(rng, nmax=4, nmin=2)
    with _quiet(), warnings.catch_warnings():
        warnings.simplefilter("ignore")
        try:
            P = pipegen.build(pd).pipeline
        except Exception:  # noqa: BLE001
            return None
        rw = None
        for _ in range(10):
            o = _gen_op(rng, P, 0)
            if o["op"] == "rename" and any(k == "unused_key" for k, _ in o["r"]):
                continue
            r = _op_renaming(P, o)
            cur = _names(P)
            if len({r.get(n, n) for n in cur}) != len(cur):
                continue
            try:
                apply_op(P.copy(), o)
                rw = o
                break
            except Exception:  # noqa: BLE001
                continue
        if rw is None:
            rw = {"op": "copy"}
        c = {"kind": "alias", "p": pd, "rw": rw, "side": rng.random() < 0.5}
        c["callA"] = _root_call(rng, P)
        try:
            B = apply_op(P.copy() if rw["op"] not in NEW_PIPELINE_OPS else P, rw)
            c["callB"] = _root_call(rng, B)
            X = P if c["side"] else B           # same names as the side that will be mutated
            for _ in range(6):
                m = _gen_mut(rng, X)
                try:
                    Xc = X.copy()
                    apply_mut(Xc, m)
                    c["mut"] = m
                    break
                except Exception:  # noqa: BLE001
                    continue
            else:
                return None
        except Exception:  # noqa: BLE001
            return None
    return c


def gen_aliasmap_case(rng, tier):
    from .. import mapgen, mapsym

    for _ in range(20):
        rq = mapgen.gen_request(rng, max_funcs=3, max_size=2, allow_internal=False, storages=("dict",))
        names = []
        for fd in rq["funcs"]:
            for n in fd["params"] + fd["outs"]:
                if n not in names:
                    names.append(n)
        mapped = {n for fd in rq["funcs"] if fd.get("spec") for n, _ in fd["spec"]["i"]}
        roots = [k for k, v in rq["inputs"] if isinstance(v, str) or k in mapped]
        kind = rng.choice(["copy", "pickle", "rename", "scope", "addaxis", "addaxis"])
        if kind == "rename":
            ks = rng.sample(names, rng.randint(1, min(2, len(names))))
            rw = {"op": "rename", "r": [[k, f"n{j}_{k}"] for j, k in enumerate(ks)]}
        elif kind == "scope":
            rw = {"op": "scope", "s": rng.choice(SCOPES)}
        elif kind == "addaxis":
            if not roots:
                continue
            rw = {"op": "addaxis", "params": [rng.choice(roots)], "axis": "kk"}
        else:
            rw = {"op": kind}
        c = {"kind": "aliasmap", "req": rq, "rw": rw, "side": rng.random() < 0.5}
        try:
            A, B, _ = _aliasmap_setup(c)
        except Exception:  # noqa: BLE001
            continue
        X = A if c["side"] else B
        xnames = _names(X)
        xroots = list(X.topological_generations.root_args)
        for _try in range(6):
            mk = rng.choice(["addaxis", "addaxis", "rename", "drop"])
            if mk == "addaxis" and xroots:
                m = {"op": "addaxis", "params": [rng.choice(xroots)], "axis": "mm"}
            elif mk == "rename":
                n = rng.choice(xnames)
                m = {"op": "rename", "r": [[n, "m_" + n.replace(".", "_")]]}
            else:
                m = {"op": "drop", "o": rng.choice(sorted(X.all_output_names))}
            try:
                _apply_mop(X.copy(), m)
            except Exception:  # noqa: BLE001
                continue
            c["mut"] = m
            return c
    return None


def generate(rng, tier, mult):
    n = (220 if tier == "quick" else 5000) * mult
    nm = (70 if tier == "quick" else 1500) * mult
    cases = []
    while len(cases) < n:
        c = gen_rewrite_case(rng, tier)
        if c is not None:
            cases.append(c)
    with _quiet(), warnings.catch_warnings():
        warnings.simplefilter("ignore")
        for _ in range(nm):
            cases.append(gen_map_case(rng, tier))
        nam = (40 if tier == "quick" else 600) * mult
        k = 0
        while k < nam:
            c = gen_aliasmap_case(rng, tier)
            if c is not None:
                cases.append(c)
                k += 1
    na = (120 if tier == "quick" else 3000) * mult
    k = 0
    while k < na:
        c = gen_alias_case(rng, tier)
        if c is not None:
            cases.append(c)
            k += 1
    return cases


# ------------------------------------------------------------------ evidence helpers
def nontrivial_key(c):
    if c["kind"] == "aliasmap":
        return ("aliasmap", [f.get("spec") for f in c["req"]["funcs"]], c["rw"], c["side"], c["mut"])
    if c["kind"] == "alias":
        return ("alias", c["p"], c["rw"], c["side"], c["mut"])
    if c["kind"] == "map":
        if c["mop"]["op"] in ("copy", "pickle"):
            return None
        return ("map", [f.get("spec") for f in c["req"]["funcs"]], c["mop"], c["inputs1"])
    if c["kind"] == "rewrite":
        if len(c["p"]["funcs"]) < 2 or all(o["op"] in ("copy", "pickle") for o in c["ops"]):
            return None
        return ("rewrite", c["p"], c["ops"], [(x["o1"], x["kw1"]) for x in c["calls"]])
    return None


def distribution(c):
    d = {"kind": c["kind"]}
    if c["kind"] == "aliasmap":
        d["aliasmap_rw"] = c["rw"]["op"]
        d["aliasmap_mut"] = c["mut"]["op"] + ("@orig" if c["side"] else "@new")
    if c["kind"] == "alias":
        d["alias_rw"] = c["rw"]["op"]
        d["alias_mut"] = c["mut"]["m"] + ("@orig" if c["side"] else "@new")
    if c["kind"] == "map":
        d["mop"] = c["mop"]["op"]
        d["nvariants"] = len(c["variants"])
    if c["kind"] == "rewrite":
        d["nops"] = len(c["ops"])
        for o in c["ops"]:
            d["op_" + ("unscope" if (o["op"] == "scope" and o["s"] is None) else o["op"])] = 1
        d["accepted"] = bool(c["calls"]) or None
        d["map_mode"] = bool(c.get("mapin")) or None
        d["ncalls"] = min(len(c["calls"]), 12)
        d["conv"] = ("nested" if any(isinstance(v, dict) for x in c["calls"] for _, v in x["kw1"])
                     else "dotted" if any("." in k for x in c["calls"] for k, _ in x["kw1"]) else "plain")
    return d


def _shared_dependency(c, upto):
    """Does simplified_pipeline put one function into two groups? (known finding)"""
    from pipefunc._pipeline._simplify import _combine_nodes, _identify_combinable_nodes

    with _quiet(), warnings.catch_warnings():
        warnings.simplefilter("ignore")
        try:
            pl = pipegen.build(c["p"]).pipeline
            for o in c["ops"][:upto]:
                pl = apply_op(pl, o)
            o = c["ops"][upto]
            func = pl.node_mapping[o["o"]]
            cn = _combine_nodes(_identify_combinable_nodes(func, pl.graph, pl.all_root_args,
                                                           conservatively_combine=o["cons"]))
            seen = []
            for k, v in cn.items():
                for f in [k, *v]:
                    if f in seen:
                        return True
                    seen.append(f)
        except Exception:  # noqa: BLE001
            return False
    return False


def finding_id(c, impl_obs, kind):
    if c["kind"] != "rewrite":
        return None
    try:
        status = impl_obs[0]
        if len(status) == 2 and isinstance(status[1], int):
            i = status[1]
            if c["ops"][i]["op"] == "simplify" and status[0] == ["err", "ValueError"] and _shared_dependency(c, i):
                return "simplify-shared-dependency"
    except Exception:  # noqa: BLE001
        return None
    return None


def shrink(c):
    out = []
    if c["kind"] != "rewrite":
        return out
    for j in range(len(c["calls"])):
        d = dict(c)
        d["calls"] = c["calls"][:j] + c["calls"][j + 1:]
        if d["calls"]:
            out.append(d)
    if len(c["calls"]) > 1:
        for j in range(len(c["calls"])):
            d = dict(c)
            d["calls"] = [c["calls"][j]]
            out.append(d)
    return out
