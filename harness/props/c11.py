"""C11 - Selecting outputs / supplying intermediates keeps values, runs only needed work."""
from __future__ import annotations

import contextlib
import io
import itertools

from .. import pipegen
from ..coqlit import Err, Ok, cbool, clist, copt, cstr
from ..symfuncs import canon
from . import c02

PROP = "C11"
RUN = "Run_C11"
THEOREMS = "Props/C11.v"
ANCHORS = [("pipefunc/_pipeline/_base.py", ["Pipeline.subpipeline", "_find_nodes_between", "_find_required_nodes", "Pipeline.node_mapping",
                                            "Pipeline.graph", "Pipeline.topological_generations", "Pipeline.leaf_nodes",
                                            "Pipeline.defaults", "Pipeline.drop"]),
           ("pipefunc/map/_prepare.py", ["prepare_run", "_validate_complete_inputs"]),
           ("pipefunc/map/_run.py", ["run_map", "_func_kwargs", "_execute_single", "_run_and_process_generation",
                                     "_load_from_store", "_dump_single_output"]),
           ("pipefunc/map/_run_info.py", ["RunInfo.create", "_compare_to_previous_run_info", "RunInfo.init_store"]),
           ("pipefunc/_utils.py", ["equal_dicts"])]
RULE = ("the pipelines of C02 plus extra nullary / all-default / all-bound functions x requested output sets S (every "
        "single output, pairs, random larger sets) x provided name sets I (exact root cut, every arg combination of an "
        "output in S, interior-only, mixed, with surplus, with a missing name, empty) x {subpipeline(I, S), "
        "map(output_names=S), map(auto_subpipeline=True), plain map} + two maps into ONE run folder (second with "
        "cleanup=False: same inputs, valid cuts with a changed intermediate, changed / fewer roots) + carried-default "
        "requests (the only declarer of a shared root default is dropped while a kept function has an explicitly set "
        "default that differs from / is absent in its signature and is not provided); scalar values, "
        "storage='dict' (file storage for the two-run cases), parallel=False; "
        "non-trivial = >= 2 functions; distinct by (kind, pipeline, I, S)")
ASSUMPTIONS = list(c02.ASSUMPTIONS) + ["pipelines without MapSpecs (scalar values); storage='dict'; parallel=False",
                                       "call order inside Pipeline.map is not compared (the property speaks of the set of calls)"]
TRUSTED = ["Model/SubPipe.v mirrors Pipeline.subpipeline/_find_nodes_between/_find_required_nodes/prepare_run/run_map (scalar case) by hand; "
           "tie = per-run differential execution", "Base/Graph.v vs networkx (checked under C02)"]


def emit_case(c) -> str:
    if c["kind"] == "sub":
        return (f"(CSub {pipegen.pipeline_lit(c['p'])} {clist([cstr(x) for x in c['I']])} "
                f"{clist([cstr(x) for x in c['S']])})")
    def s_lit(S):
        return copt(S, lambda l: clist([cstr(x) for x in l]))

    if c["kind"] == "map2":
        return (f"(CMap2 {pipegen.pipeline_lit(c['p'])} {pipegen.alist_lit(c['inputs'])} {s_lit(c['S'])} {cbool(c['auto'])} "
                f"{pipegen.alist_lit(c['inputs2'])} {s_lit(c['S2'])} {cbool(c['auto2'])})")
    return f"(CMap {pipegen.pipeline_lit(c['p'])} {pipegen.alist_lit(c['inputs'])} {s_lit(c['S'])} {cbool(c['auto'])})"


def run_impl(c):
    try:
        b = pipegen.build_cached(c["p"], slot="c11")
    except Exception:  # noqa: BLE001
        return ["bad-case"]
    pl, log = b.pipeline, b.log
    if c["kind"] == "sub":
        try:
            sub = pl.subpipeline(set(c["I"]), set(c["S"]))
        except Exception as e:  # noqa: BLE001
            return Err(e)
        return Ok(sorted((f.output_name if isinstance(f.output_name, str) else f.output_name[0]) for f in sub.functions))
    def one_map(inputs, S, auto, **kw):
        log.clear()
        try:
            with contextlib.redirect_stdout(io.StringIO()):
                res = pl.map(dict(inputs), output_names=None if S is None else set(S), auto_subpipeline=auto,
                             parallel=False, show_progress=False, **kw)
        except Exception as e:  # noqa: BLE001
            return Err(e)
        return Ok([[[k, canon(v.output)] for k, v in sorted(res.items())], sorted(log.read())])

    if c["kind"] == "map2":     # two maps into ONE run folder, the second with cleanup=False
        import tempfile

        with tempfile.TemporaryDirectory(prefix="verif_c11_") as folder:
            r1 = one_map(c["inputs"], c["S"], c["auto"], run_folder=folder)
            if isinstance(r1, Err):
                return [r1, None]
            r2 = one_map(c["inputs2"], c["S2"], c["auto2"], run_folder=folder, cleanup=False)
        return [r1, r2]
    return one_map(c["inputs"], c["S"], c["auto"], storage="dict")


# ------------------------------------------------------------------ generator
def _extra_funcs(rng, pd):
    """Append functions without any root-argument ancestor: nullary, all parameters defaulted, all bound."""
    funcs = [dict(f) for f in pd["funcs"]]
    n_out = sum(len(f["outs"]) for f in funcs)
    k = rng.choice([0, 1, 1, 2])
    for j in range(k):
        kind = rng.choice(["nullary", "default", "bound"])
        name = f"c{j}"
        out = f"o{n_out + j}"
        if kind == "nullary":
            f = {"name": name, "outs": [out], "params": [], "sigd": {}, "defs": {}, "bound": {}}
        elif kind == "default":
            f = {"name": name, "outs": [out], "params": [["u", "u"]], "sigd": {"u": "d_u"}, "defs": {}, "bound": {}}
        else:
            f = {"name": name, "outs": [out], "params": [["x", "x"]], "sigd": {}, "defs": {}, "bound": {"x": f"B{name}"}}
        funcs.append(f)
        # make an existing function consume it
        cands = [g for g in funcs[:-1] if len(g["params"]) < 4 and out not in [c for c, _ in g["params"]]]
        if cands and rng.random() < 0.85:
            g = rng.choice(cands)
            gi = funcs.index(g)
            g = dict(g)
            if any(o in g["sigd"] for _, o in g["params"]):
                g["params"] = [[out, out]] + g["params"]       # keep signature defaults trailing
            else:
                g["params"] = g["params"] + [[out, out]]
            funcs[gi] = g
    # the consumers must come after their producers only in the model-independent sense; Pipeline accepts any order
    return {"funcs": funcs}


def _input_sets(rng, pd, S):
    outs = pipegen.outputs_of(pd)
    roots = pipegen.root_names(pd)
    sets = []
    try:
        pl = pipegen.build_cached(pd, slot="gen").pipeline
        combos = [sorted(set().union(*[set(c) for c in cs])) for cs in
                  itertools.islice(itertools.product(*[sorted(pl.arg_combinations(o)) for o in S]), 6)]
        defaults = set(pl.defaults)
    except Exception:  # noqa: BLE001
        combos, defaults = [], set()
    for cmb in combos:
        sets.append(("combo", [n for n in cmb if n not in S]))
        nod = [n for n in cmb if n not in defaults and n not in S]
        if nod != cmb:
            sets.append(("combo-defaults", nod))
    universe = [n for n in roots + outs if n not in S]
    for _ in range(3):
        base = list(rng.choice(combos)) if combos and rng.random() < 0.7 else rng.sample(universe, rng.randint(0, len(universe)))
        base = [n for n in base if n not in S]
        r = rng.random()
        if r < 0.3 and universe:
            base.append(rng.choice(universe))
            sets.append(("surplus", base))
        elif r < 0.55 and base:
            base.pop(rng.randrange(len(base)))
            sets.append(("missing", base))
        elif r < 0.8:
            inner = [n for n in outs if n not in S]
            sets.append(("interior", rng.sample(inner, rng.randint(0, min(3, len(inner))))))
        else:
            sets.append(("random", base))
    sets.append(("empty", []))
    return [(t, list(dict.fromkeys(s))) for t, s in sets]


def _two_run_cases(rng, pd, roots, outs):
    """A full map into a run folder, then a second map into the same folder with cleanup=False: same inputs (the
    stored results may be reused), a cut with a supplied intermediate of another value, changed / fewer root values."""
    full = [[n, "v_" + n] for n in roots]
    out = []
    prod = {o: f for f in pd["funcs"] for o in f["outs"]}
    inner = [o for o in outs if any(o in [c for c, _ in g["params"] if c not in g["bound"]] for g in pd["funcs"])]
    for _ in range(2):
        r = rng.random()
        if r < 0.5 and inner:          # supply an intermediate with a NEW value, keep the other roots as they were
            a = rng.choice(inner)
            down = [o for o in outs if o != a and o not in prod[a]["outs"]]
            keep = [kv for kv in full if rng.random() < 0.8]
            in2 = keep + [[a, "new_" + a]]
            if rng.random() < 0.5 or not down:
                S2, auto2, tag = None, True, "two-run-cut-auto"
            else:
                S2, auto2, tag = rng.sample(down, rng.randint(1, min(2, len(down)))), rng.random() < 0.3, "two-run-cut"
        elif r < 0.7:                   # identical inputs, another selection: reuse is legitimate
            in2 = list(full)
            S2 = rng.sample(outs, rng.randint(1, min(2, len(outs)))) if rng.random() < 0.7 else None
            auto2, tag = (S2 is None or rng.random() < 0.3), "two-run-same"
        elif r < 0.85 and full:         # a root value changed
            in2 = [list(kv) for kv in full]
            in2[rng.randrange(len(in2))][1] = "changed"
            S2, auto2, tag = None, rng.random() < 0.5, "two-run-changed-root"
        else:                           # fewer roots (the rest keeps defaults or is missing)
            in2 = [kv for kv in full if rng.random() < 0.6]
            S2, auto2, tag = ([rng.choice(outs)], False, "two-run-fewer") if rng.random() < 0.5 else (None, True, "two-run-fewer")
        rng.shuffle(in2)
        first_S = None if rng.random() < 0.8 else [rng.choice(outs)]
        out.append({"kind": "map2", "p": pd, "inputs": full, "S": first_S, "auto": False,
                    "inputs2": in2, "S2": S2, "auto2": auto2, "tag": tag})
    # targeted: second requests that are valid on their own (checked by a dry run without folder) and supply an
    # intermediate with a NEW value next to unchanged roots - the stored results of the first run are stale for them
    try:
        pl = pipegen.build_cached(pd, slot="gen").pipeline
    except Exception:  # noqa: BLE001
        return out
    byout = {o: f for f in pd["funcs"] for o in f["outs"]}
    found = 0
    cands = list(inner)
    rng.shuffle(cands)
    for a in cands:
        if found >= 2:
            break
        # functions downstream of a (through unbound parameters), and what they read besides a
        down, frontier = [], [a]
        while frontier:
            x = frontier.pop()
            for g in pd["funcs"]:
                if g not in down and any(c == x and c not in g["bound"] for c, _ in g["params"]):
                    down.append(g)
                    frontier += g["outs"]
        if not down:
            continue
        target = rng.choice(down)
        for use_auto in (rng.random() < 0.5, None):
            S2 = None if use_auto else [rng.choice(target["outs"])]
            need, stack, seen = set(), list(S2 or [o for g in down for o in g["outs"]]), set()
            while stack:
                x = stack.pop()
                if x == a or x in seen:
                    continue
                seen.add(x)
                g = byout.get(x)
                if g is None:
                    need.add(x)
                else:
                    stack += [c for c, _ in g["params"] if c not in g["bound"]]
            in2 = [[a, "new_" + a]] + [[n, "v_" + n] for n in roots if n in need]
            try:
                with contextlib.redirect_stdout(io.StringIO()):
                    pl.map(dict(in2), output_names=None if S2 is None else set(S2), auto_subpipeline=S2 is None,
                           parallel=False, storage="dict", show_progress=False)
            except Exception:  # noqa: BLE001
                continue
            rng.shuffle(in2)
            out.append({"kind": "map2", "p": pd, "inputs": full, "S": None, "auto": False,
                        "inputs2": in2, "S2": S2, "auto2": S2 is None, "tag": "two-run-valid-cut"})
            found += 1
            break
    return out


def _needed_roots(pd, S):
    """Root-argument names read (through unbound parameters) by the functions S depends on; nothing is cut."""
    prod = {o: f for f in pd["funcs"] for o in f["outs"]}
    seen, stack, roots = set(), [o for o in S if o in prod], []
    while stack:
        f = prod[stack.pop()]
        if f["name"] in seen:
            continue
        seen.add(f["name"])
        for cur, _ in f["params"]:
            if cur in f["bound"]:
                continue
            if cur in prod:
                stack.append(cur)
            elif cur not in roots:
                roots.append(cur)
    return roots


def _add_param(f, cur, sig=None, explicit=None):
    """f with one more parameter `cur` (placed so that signature defaults stay trailing)."""
    f = dict(f)
    params = list(f["params"])
    if sig is not None:
        params.append([cur, cur])
        f["sigd"] = dict(f["sigd"], **{cur: sig})
    else:
        k = len(params)
        while k > 0 and params[k - 1][1] in f["sigd"]:
            k -= 1
        params.insert(k, [cur, cur])
    f["params"] = params
    if explicit is not None:
        f["defs"] = dict(f["defs"], **{cur: explicit})
    return f


def _carried_default_cases(rng, pd):
    """Requests in which (a) the ONLY function that declares the default of a root argument `cc` is dropped while a kept
    function still reads `cc` (the sub-pipeline has to carry that default over) and (b) a kept function has an
    explicitly set default (PipeFunc(defaults=...)) for an argument `kk` that is not provided - different from its
    signature default, or without any signature default.  The full pipeline's values are demanded as everywhere."""
    funcs = [dict(f) for f in pd["funcs"]]
    names = {c for f in funcs for c, _ in f["params"]} | {o for f in funcs for o in f["outs"]}
    if {"cc", "kk", "odc"} & names or any(f["name"] == "dc" for f in funcs):
        return []
    cand = [i for i, f in enumerate(funcs) if len(f["params"]) < 4]
    if not cand:
        return []
    gi = rng.choice(cand)                                   # reads cc without a default of its own
    hi = rng.choice(cand + [gi])                            # carries the explicit default of kk
    funcs[gi] = _add_param(funcs[gi], "cc")
    fallback = rng.random() < 0.5                           # kk has (another) signature default / none at all
    funcs[hi] = _add_param(funcs[hi], "kk", sig="d_kk" if fallback else None, explicit="e_kk")
    declarer = {"name": "dc", "outs": ["odc"], "params": [["cc", "cc"]], "sigd": {"cc": "d_cc"}, "defs": {}, "bound": {}}
    if rng.random() < 0.3:                                  # the declarer may read a root argument as well
        declarer["params"] = [["x", "x"], ["cc", "cc"]]
    funcs.insert(rng.randint(0, len(funcs)), declarer)
    qd = {"funcs": funcs}
    g, h = next(f for f in funcs if any(c == "cc" for c, _ in f["params"]) and f["name"] != "dc"), \
        next(f for f in funcs if any(c == "kk" for c, _ in f["params"]))
    if "cc" in g["bound"] or "kk" in h["bound"]:
        return []
    outs = [o for o in pipegen.outputs_of(qd) if o != "odc"]
    base = list(dict.fromkeys([rng.choice(g["outs"]), rng.choice(h["outs"])]))
    s_sets = [base, list(dict.fromkeys(base + rng.sample(outs, min(len(outs), rng.randint(0, 2)))))]
    cases = []
    for S in s_sets:
        I = [n for n in _needed_roots(qd, S) if n not in ("cc", "kk")]
        inputs = [[n, "v_" + n] for n in I]
        cases.append({"kind": "map", "p": qd, "inputs": inputs, "S": S, "auto": rng.random() < 0.5, "tag": "carried-default"})
        cases.append({"kind": "sub", "p": qd, "I": I, "S": S, "tag": "carried-default"})
    if "x" not in [c for c, _ in declarer["params"]]:       # no output_names: the declarer is not downstream of the inputs
        I = [n for n in _needed_roots(qd, outs) if n not in ("cc", "kk")]
        if I:
            cases.append({"kind": "map", "p": qd, "inputs": [[n, "v_" + n] for n in I], "S": None, "auto": True,
                          "tag": "carried-default"})
    return cases


def generate(rng, tier, mult):
    n_pipes = (30 if tier == "quick" else 500) * mult
    cases = []
    for _ in range(n_pipes):
        pd = pipegen.gen_pipeline(rng, nmax=5)
        if rng.random() < 0.4:
            pd = _extra_funcs(rng, pd)
        if rng.random() < 0.15:            # differing defaults on parameters that are fed by another function
            alloutputs = set(pipegen.outputs_of(pd))
            fs = []
            for f in pd["funcs"]:
                f = dict(f)
                fed = [c for c, _ in f["params"] if c in alloutputs and c not in f["bound"]]
                if fed and rng.random() < 0.6:
                    f["defs"] = dict(f["defs"], **{rng.choice(fed): "alt_" + f["name"]})
                fs.append(f)
            pd = {"funcs": fs}
        if rng.random() < 0.5:
            q = list(pd["funcs"])
            rng.shuffle(q)
            pd = {"funcs": q}
        outs = pipegen.outputs_of(pd)
        s_sets = [[o] for o in outs]
        s_sets += [list(x) for x in rng.sample(list(itertools.combinations(outs, 2)), min(3, len(outs) * (len(outs) - 1) // 2))]
        if len(outs) > 2:
            s_sets.append(rng.sample(outs, rng.randint(3, min(5, len(outs)))))
        if tier == "quick" and len(s_sets) > 5:
            s_sets = rng.sample(s_sets, 5)
        for S in s_sets:
            for tag, I in _input_sets(rng, pd, S):
                inputs = [[n, "v_" + n] for n in I]
                kind = rng.choice(["sub", "sub", "map", "map", "auto"])
                if kind == "sub":
                    cases.append({"kind": "sub", "p": pd, "I": I, "S": S, "tag": tag})
                elif kind == "map":
                    cases.append({"kind": "map", "p": pd, "inputs": inputs, "S": S, "auto": rng.random() < 0.3, "tag": tag})
                else:
                    cases.append({"kind": "map", "p": pd, "inputs": inputs, "S": None, "auto": True, "tag": tag})
        roots = pipegen.root_names(pd)
        cases += _two_run_cases(rng, pd, roots, outs)
        if rng.random() < 0.5:
            cases += _carried_default_cases(rng, pd)
        cases.append({"kind": "map", "p": pd, "inputs": [[n, "v_" + n] for n in roots], "S": None, "auto": False, "tag": "plain"})
        cases.append({"kind": "sub", "p": pd, "I": ["nope"], "S": [outs[0]], "tag": "unknown"})
        cases.append({"kind": "sub", "p": pd, "I": roots, "S": ["nope"], "tag": "unknown"})
    return cases


def nontrivial_key(c):
    if len(c["p"]["funcs"]) < 2:
        return None
    return (c["kind"], c["p"], c.get("I") or c.get("inputs"), c["S"], c.get("auto"), c.get("inputs2"), c.get("S2"), c.get("auto2"))


def distribution(c):
    d = {"kind": c["kind"] + ("-auto" if c.get("auto") else "") + ("-noS" if c["S"] is None else ""),
         "tag": c.get("tag", ""), "nfuncs": len(c["p"]["funcs"])}
    return d


def _analysis(c):
    """Python mirror of the notions used to classify a failing case (never used to judge a case)."""
    pd = c["p"]
    I = set(c["I"] if c["kind"] == "sub" else [k for k, _ in c["inputs"]])
    funcs = pd["funcs"]
    prod = {o: f["name"] for f in funcs for o in f["outs"]}
    byname = {f["name"]: f for f in funcs}
    S = c["S"] if c["S"] is not None else [o for f in funcs for o in f["outs"]]
    # needed functions: backwards from S through unbound parameters that are not provided
    needed, stack = set(), [o for o in S if o in prod]
    while stack:
        f = byname[prod[stack.pop()]]
        if f["name"] in needed:
            continue
        needed.add(f["name"])
        stack += [cur for cur, _ in f["params"] if cur not in f["bound"] and cur not in I and cur in prod]
    return I, S, byname, prod, needed


def _is_err(impl_obs):
    return isinstance(impl_obs, list) and len(impl_obs) == 2 and impl_obs[0] == "err"


def finding_id(c, impl_obs, kind):
    """Known-finding class of a FAILING case, decided from the case structure: the id is returned only when the
    mechanism of that finding is what makes THIS request fail.  The one known finding is a REFUSAL of requests that
    are computable from the provided names; an uncomputable request that is answered, a wrong value, or a
    sub-pipeline / call set that is not exactly the needed one is never known."""
    if c["kind"] == "map2":
        return None                      # stale or wrong values are never known
    I, S, byname, prod, needed = _analysis(c)
    funcs = c["p"]["funcs"]
    if c["S"] is None and c.get("auto"):
        return None                      # only wrong values can fail there
    if not S or any(o not in prod for o in S) or any(o in I for o in S):
        return None                      # outside the property: cannot fail
    alld = {cur for f in funcs for cur, _v in pipegen.func_defaults(f) if cur not in f["bound"] and cur not in prod}
    computable = all(cur in f["bound"] or cur in I or cur in prod or cur in alld
                     for n in needed for f in [byname[n]] for cur, _ in f["params"])
    if not computable or not _is_err(impl_obs):
        return None                      # an answer to an uncomputable request / a wrong answer is a genuine violation
    # a computable request was refused: replay the checks of subpipeline / prepare_run and name the cause
    needed_outs = {o for n in needed for o in byname[n]["outs"]}
    seen = {}
    for g in funcs:                                                 # Pipeline._validate of the sub-pipeline
        if g["name"] not in needed:
            continue
        for k, v in pipegen.func_defaults(g):
            if k in g["bound"] or k in needed_outs:
                continue
            if seen.setdefault(k, v) != v and k in prod:            # a provided intermediate name, producer cut off
                return "c11-inconsistent-dead-defaults"
    return None


def shrink(c):
    out = []
    fs = c["p"]["funcs"]
    for j in range(len(fs)):
        d = dict(c)
        d["p"] = {"funcs": fs[:j] + fs[j + 1:]}
        out.append(d)
    key = "I" if c["kind"] == "sub" else ("inputs2" if c["kind"] == "map2" else "inputs")
    for j in range(len(c[key])):
        d = dict(c)
        d[key] = c[key][:j] + c[key][j + 1:]
        out.append(d)
    if c["S"]:
        for j in range(len(c["S"])):
            if len(c["S"]) > 1:
                d = dict(c)
                d["S"] = c["S"][:j] + c["S"][j + 1:]
                out.append(d)
    return out
