"""C12 - Ill-formed pipelines and inputs are rejected before any user code runs."""
from __future__ import annotations

import atexit
import contextlib
import copy
import fcntl
import hashlib
import inspect
import io
import itertools
import json
import os
import shutil
import sys
import tempfile
from pathlib import Path

from .. import common, mapgen, mapsym, pipegen
from .. import translate_prepare as tp
from ..coqlit import Err, cbool, clist, cnat, copt, cpair, cstr

PROP = "C12"
RUN = "Run_C12"
THEOREMS = "Props/C12.v"
ANCHORS = [
    ("pipefunc/_pipeline/_validation.py", ["validate_unique_output_names", "validate_unique_outputs",
                                           "validate_consistent_defaults", "validate_scopes"]),
    ("pipefunc/_pipefunc.py", ["PipeFunc.__init__", "PipeFunc._validate", "PipeFunc._validate_names",
                               "PipeFunc._validate_mapspec", "PipeFunc._validate_update", "PipeFunc.defaults",
                               "PipeFunc.update_defaults", "PipeFunc.update_bound", "PipeFunc.update_renames",
                               "PipeFunc._clear_internal_cache"]),
    ("pipefunc/_pipeline/_base.py", ["Pipeline.__init__", "Pipeline.add", "Pipeline._validate", "Pipeline._validate_mapspec",
                                     "Pipeline.topological_generations", "Pipeline.graph", "Pipeline.defaults",
                                     "Pipeline._autogen_mapspec_axes", "Pipeline.output_to_func", "Pipeline.drop",
                                     "Pipeline.replace", "Pipeline.update_defaults", "Pipeline.update_renames",
                                     "Pipeline.run", "Pipeline._validate_run_kwargs", "Pipeline.mapspec_names", "Pipeline.mapspecs",
                                     "Pipeline.sorted_functions"]),
    ("pipefunc/map/_prepare.py", ["prepare_run", "_validate_complete_inputs", "_validate_fixed_indices", "_check_parallel"]),
    ("pipefunc/map/_run_info.py", ["RunInfo.create", "RunInfo.__post_init__", "RunInfo.init_store", "RunInfo.storage_class",
                                   "RunInfo.load", "_storage_class", "_validate_storage", "_check_inputs",
                                   "_compare_to_previous_run_info", "_maybe_run_folder", "_requires_serialization",
                                   "_construct_internal_shapes", "_init_arrays"]),
    ("pipefunc/map/_mapspec.py", ["validate_consistent_axes", "MapSpec.shape", "_validate_shapes", "_get_common_dim",
                                  "array_shape", "mapspec_dimensions", "MapSpec.__post_init__"]),
    ("pipefunc/map/_shapes.py", ["map_shapes"]),
    ("pipefunc/map/_storage_array/_base.py", ["get_storage_class"]),
    ("pipefunc/_utils.py", ["equal_dicts", "_is_equal"]),
]
RULE = ("every valid pipeline of harness/pipegen.py and every valid map request of harness/mapgen.py, unmutated and under each "
        "single-fault mutation operator at every applicable position (construction: output-name collision across "
        "functions / inside a tuple, output renamed to an own parameter, added dependency edge (cycle or not), changed "
        "default on a shared parameter, MapSpec input not in the signature / output mismatch / output order / bound input, "
        "index renamed / two axes swapped / rank +-1 in one consumer; map: dropped input, surplus input (fresh name / an "
        "intermediate), axis resized, rank +-1 (down to a scalar), list given for a >=2-D input, list<->ndarray flip, "
        "unknown storage name (string / default / mapped output / unmapped output / unused key), missing storage entry, "
        "executor with parallel=False, MapSpec replaced after construction) x run folder mode (fresh, pre-existing from a "
        "valid run with cleanup=False, pre-existing with cleanup=True); plus the prepare_run step order regenerated from "
        "the source (2 paths) and the dynamic validation of the translator's classification table on valid requests; "
        "plus MUTATE-THEN-USE: each valid pipegen pipeline (then pipeline(o, **root_args)) and valid mapgen request (then "
        "map on the folder of a previous valid run, cleanup=False; also with equal explicit defaults on shared scalar "
        "roots) after ONE call of pipeline.functions[j].update_defaults / update_bound / update_renames or "
        "pipeline.update_defaults / update_renames / add / replace (default changed on one member / on all, bind, unbind, "
        "output renamed onto another output / onto an own parameter, root parameter renamed onto a descendant's output, "
        "two differently defaulted parameters renamed together, fresh names, unknown keys, add / replace of valid and "
        "ill-formed functions), observing where the exception is raised and the pipeline state after the mutation; "
        "plus pipeline(output, **root_args) on the pipegen pipelines: complete, each keyword dropped, a surplus keyword "
        "(fresh name / another root argument); "
        "non-trivial = a mutated case or a base with >= 2 functions; distinct by (kind, description, mode)")
ASSUMPTIONS = ["pipeline(...) level: Pipe.run_checked (C02's Model/Pipe.v) = Pipeline.run with the up-front keyword "
               "validation; the order inside Pipeline.run is regenerated from the source (steps_run)",
               "mutate-then-use: update_from='current', overwrite only for update_bound, no update_scope / drop; renames that "
               "make two parameters of one function equal are not generated",
               "pipeline(...) level: Model/Pipe.v (C02) is the model of Pipeline.run; missing/surplus keywords are judged "
               "with C02's specification (Pipe.eval fails / keyword names no parameter of a needed function)",
               "a run folder is always passed to map; parallel=False (except the executor fault); show_progress=False",
               "un-scoped names, no resources, no type annotations (C16), no output_names/auto_subpipeline/fixed_indices",
               "the run_info.json of a pre-existing folder was written by the same pipeline",
               "MapSpecs are written explicitly (requests that need auto-generated MapSpecs are outside the model)",
               "ndarray inputs are object arrays (np.array_equal(equal_nan=True) cannot compare them: the code then skips "
               "the comparison of inputs with the previous run)"]
TRUSTED = ["Model/Validate.v mirrors the validators by hand; tie = per-run differential execution incl. the place "
           "(constructor / add, index) of the first exception",
           "harness/translate_prepare.py: Python ast -> step list; its classification TABLE (validated dynamically by "
           "sys.addaudithook wrappers on valid requests and statically: Pure callees contain no raise), its path "
           "ASSUMPTIONS, 'same label = same check', attribute access and operators are effect-free",
           "RunInfo.load re-dumps exactly what it read (class Rewrite; folder snapshot compared around every call)",
           "harness/mapsym.py, harness/symfuncs.py conventions for structural user functions"]

BOGUS = "bogus_storage"


# ====================================================================================== descriptions
def uf_from_pipegen(fd):
    cur_of = {o: c for c, o in fd["params"]}
    return {"name": fd["name"], "outs": list(fd["outs"]), "params": [list(p) for p in fd["params"]],
            "sigd": {cur_of[o]: v for o, v in fd["sigd"].items()}, "defs": dict(fd["defs"]), "bound": dict(fd["bound"]),
            "spec": None, "int": []}


def uf_from_mapgen(fd):
    d = {"name": fd["name"], "outs": list(fd["outs"]), "params": [[p, p] for p in fd["params"]],
         "sigd": dict(fd.get("defaults") or []), "defs": {}, "bound": dict(fd.get("bound") or []),
         "spec": copy.deepcopy(fd.get("spec")), "int": list(fd.get("int") or [])}
    if fd.get("ret") is not None:
        d["ret"] = list(fd["ret"])
    if fd.get("intlist"):
        d["intlist"] = True
    return d


def fdefaults(uf):
    out = []
    for cur, _ in uf["params"]:
        if cur in uf["defs"]:
            out.append([cur, uf["defs"][cur]])
        elif cur in uf["sigd"] and cur not in uf["bound"]:
            out.append([cur, uf["sigd"][cur]])
    return out


def cur_names(uf):
    return [c for c, _ in uf["params"]]


# ====================================================================================== building real objects
def make_callable(uf, log):
    import numpy as np

    name, outs = uf["name"], uf["outs"]
    origs = [o for _, o in uf["params"]]
    ish = tuple(uf.get("ret") if uf.get("ret") is not None else uf.get("int") or ())
    aslist = uf.get("intlist", False)

    def body(**kw):
        app = name + "(" + ",".join(f"{p}={mapsym.canon(kw[p])}" for p in origs) + ")"
        log.append(app)

        def value(base):
            if not ish:
                return base
            a = np.empty(ish, dtype=object)
            for j in itertools.product(*map(range, ish)):
                a[j] = "elem(" + base + ";" + ",".join(map(str, j)) + ")"
            return a.tolist() if (aslist and len(ish) == 1) else a

        if len(outs) == 1:
            return value(app)
        return tuple(value(f"out({o};{app})") for o in outs)

    sig_orig = {o: uf["sigd"][c] for c, o in uf["params"] if c in uf["sigd"]}
    body.__signature__ = inspect.Signature([
        inspect.Parameter(o, inspect.Parameter.POSITIONAL_OR_KEYWORD, default=sig_orig.get(o, inspect.Parameter.empty))
        for o in origs])
    body.__name__ = name
    body.__qualname__ = name
    return body


def build_pf(uf, log):
    from pipefunc import PipeFunc

    outs = uf["outs"]
    renames = {o: c for c, o in uf["params"] if o != c}
    pf = PipeFunc(make_callable(uf, log),
                  output_name=outs[0] if len(outs) == 1 else tuple(outs),
                  renames=renames or None, defaults=dict(uf["defs"]) or None, bound=dict(uf["bound"]) or None,
                  mapspec=mapsym.spec_str(uf.get("spec")),
                  internal_shape=tuple(uf["int"]) if uf.get("int") else None)
    if list(pf.parameters) != cur_names(uf) or [list(x) for x in pf.defaults.items()] != fdefaults(uf):
        raise AssertionError(f"harness description mismatch: {pf.parameters} {pf.defaults} vs {uf}")
    return pf


def err_class(e):
    return Err(e).name


def construct(funcs, log):
    """Returns (pipeline, None) or (None, [class, stage, index])."""
    from pipefunc import Pipeline

    pfs = []
    for k, uf in enumerate(funcs):
        try:
            pfs.append(build_pf(uf, log))
        except AssertionError:
            raise
        except Exception as e:  # noqa: BLE001
            return None, [err_class(e), "func", k]
    pl = Pipeline([])
    for k, pf in enumerate(pfs):
        try:
            pl.add(pf)
        except Exception as e:  # noqa: BLE001
            return None, [err_class(e), "add", k]
    return pl, None


def run_construct(c):
    log = []
    with contextlib.redirect_stdout(io.StringIO()):
        pl, bad = construct(c["funcs"], log)
    if bad is not None:
        return ["rejected", bad[0], bad[1], bad[2], len(log)]
    return ["accepted", len(log)]


# ---------------------------------------------------------------------------------------- run folders
def snapshot(d):
    """relative path -> md5 (files) / 'dir'; '.' records the existence of the folder itself."""
    out = {}
    if not os.path.isdir(d):
        return out
    out["."] = "dir"
    for r, ds, fs in os.walk(d):
        for n in ds:
            out[os.path.relpath(os.path.join(r, n), d) + "/"] = "dir"
        for n in fs:
            p = os.path.join(r, n)
            with open(p, "rb") as f:
                out[os.path.relpath(p, d)] = hashlib.md5(f.read()).hexdigest()
    return out


_TMP_DIRS = []


def _cleanup_tmp():
    for d in _TMP_DIRS:
        shutil.rmtree(d, ignore_errors=True)


atexit.register(_cleanup_tmp)


def new_dir():
    d = tempfile.mkdtemp(prefix="verif_c12_")
    _TMP_DIRS.append(d)
    return d


def drop_dir(d):
    shutil.rmtree(d, ignore_errors=True)
    if d in _TMP_DIRS:
        _TMP_DIRS.remove(d)


def input_value(v):
    if isinstance(v, str):
        return v
    return mapsym.make_input({"sh": v["sh"], "d": v["d"], "as": "list" if v["k"] == "l" else "nd"})


def inputs_dict(inputs):
    return {k: input_value(v) for k, v in inputs}


def internal_dict(internal):
    d = {k: tuple(v) for k, v in (internal or [])}
    return d or None


def storage_value(st):
    if isinstance(st, str):
        return st
    return {(tuple(k.split(",")) if "," in k else k): v for k, v in st}


class _Prep:
    """Marks whether prepare_run returned (= the request was accepted)."""
    installed = False
    returned = False

    @classmethod
    def install(cls):
        if cls.installed:
            return
        import pipefunc.map._run as R

        orig = R.prepare_run

        def wrapper(**kw):
            cls.returned = False
            if _Audit.active:
                _Audit.in_prepare = True
            try:
                out = orig(**kw)
            finally:
                _Audit.in_prepare = False
            cls.returned = True
            return out

        R.prepare_run = wrapper
        cls.installed = True


_prev_cache = {"key": None, "dir": None, "snap": None}


def existing_folder(funcs, prev):
    """A folder holding a finished valid run (of `funcs` with the request `prev`); reused while unchanged."""
    key = json.dumps([funcs, prev], sort_keys=True)
    pc = _prev_cache
    if pc["key"] == key and pc["dir"] and snapshot(pc["dir"]) == pc["snap"]:
        return pc["dir"]
    if pc["dir"]:
        drop_dir(pc["dir"])
    d = new_dir()
    log = []
    pl, bad = construct(funcs, log)
    if bad is not None:
        raise AssertionError(f"base pipeline does not construct: {bad}")
    _Prep.install()
    try:
        pl.map(inputs_dict(prev["inputs"]), run_folder=d, internal_shapes=internal_dict(prev.get("internal")),
               storage=storage_value(prev["storage"]), parallel=False, cleanup=True)
    except Exception:  # noqa: BLE001
        # a valid request whose RUN fails (defects of other properties, e.g. C01 internal axis first): the folder of
        # the interrupted run is still a legitimate pre-existing folder, provided prepare_run had returned
        if not _Prep.returned:
            raise
    pc.update(key=key, dir=d, snap=snapshot(d))
    return d


def map_call(pl, c, d):
    """Call map of case c on folder d.  Returns ('accepted',) or ('rejected', class)."""
    _Prep.install()
    ex = None
    if c.get("executor"):
        from concurrent.futures import ThreadPoolExecutor

        ex = ThreadPoolExecutor(max_workers=1)
    _Prep.returned = False
    try:
        pl.map(inputs_dict(c["inputs"]), run_folder=d, internal_shapes=internal_dict(c.get("internal")),
               storage=storage_value(c["storage"]), parallel=bool(c.get("parallel", False)), executor=ex,
               cleanup=bool(c["cleanup"]))
        return ("accepted",)
    except Exception as e:  # noqa: BLE001
        if _Prep.returned:
            return ("accepted",)       # prepare_run returned: whatever happens later is not C12's business
        return ("rejected", err_class(e))
    finally:
        if ex is not None:
            ex.shutdown(wait=True)


def do_map(c, d, log):
    """Build the pipeline of case c and call map on folder d.  Returns ('accepted',) or ('rejected', class)."""
    from pipefunc.map import MapSpec

    pl, bad = construct(c["funcs"], log)
    if bad is not None:
        return ("bad-case", bad)
    if c.get("late"):
        j, sp = c["late"]
        pl.functions[j].mapspec = MapSpec.from_string(mapsym.spec_str(sp))
    return map_call(pl, c, d)


# ---------------------------------------------------------------------------------------- mutate-then-use
def apply_mutation_real(pl, mu, log):
    op = mu["op"]
    if op == "MDefaults":
        pl.functions[mu["j"]].update_defaults(dict(mu["d"]))
    elif op == "MBound":
        pl.functions[mu["j"]].update_bound(dict(mu["b"]), overwrite=bool(mu["ow"]))
    elif op == "MRename":
        pl.functions[mu["j"]].update_renames(dict(mu["ren"]))
    elif op == "PDefaults":
        pl.update_defaults(dict(mu["d"]))
    elif op == "PRename":
        pl.update_renames(dict(mu["ren"]))
    elif op == "PAdd":
        pl.add(build_pf(mu["f"], log))
    elif op == "PReplace":
        pl.replace(build_pf(mu["f"], log))
    else:
        raise ValueError(op)


def pipeline_state(pl):
    from pipefunc._utils import at_least_tuple

    out = []
    for f in pl.functions:
        out.append([[list(at_least_tuple(f.output_name)), list(f.parameters)],
                    [[k, mapsym.canon(v)] for k, v in f.defaults.items()],
                    [[k, mapsym.canon(v)] for k, v in sorted(f.bound.items())],
                    str(f.mapspec) if f.mapspec is not None else ""])
    return out


def run_mutate(c):
    from pipefunc._utils import at_least_tuple

    log = []
    with contextlib.redirect_stdout(io.StringIO()), contextlib.redirect_stderr(io.StringIO()):
        import warnings

        with warnings.catch_warnings():
            warnings.simplefilter("ignore")
            d = existing_folder(c["funcs"], c["prev"]) if c["use"] == "map" else None
            before = snapshot(d) if d else None
            pl, bad = construct(c["funcs"], log)
            if bad is not None:
                return ["bad-case", bad]
            try:
                apply_mutation_real(pl, c["mu"], log)
            except AssertionError:
                raise
            except Exception as e:  # noqa: BLE001
                return ["mutation", err_class(e), len(log), 0 if (d is None or snapshot(d) == before) else 1]
            state = pipeline_state(pl)
            if c["use"] == "run":
                try:
                    o = at_least_tuple(pl.functions[-1].output_name)[0]
                    ra = pl.root_args(o)
                    pl(o, **{n: "v_" + n for n in ra})
                    return ["never", state]
                except Exception as e:  # noqa: BLE001
                    return ["use", err_class(e), len(log), 0, state]
            r = map_call(pl, c, d)
            if r[0] == "accepted":
                return ["never", state]
            return ["use", r[1], len(log), 0 if snapshot(d) == before else 1, state]


def run_map(c):
    log = []
    with contextlib.redirect_stdout(io.StringIO()), contextlib.redirect_stderr(io.StringIO()):
        import warnings

        with warnings.catch_warnings():
            warnings.simplefilter("ignore")
            if c["prev"] is not None:
                d = existing_folder(c["funcs"], c["prev"])
                own = False
            else:
                d = new_dir()
                own = True
            before = snapshot(d)
            try:
                r = do_map(c, d, log)
                after = snapshot(d)
            finally:
                if own:
                    drop_dir(d)
    if r[0] == "bad-case":
        return ["bad-case", r[1]]
    if r[0] == "accepted":
        return ["accepted"]
    return ["rejected", r[1], len(log), 0 if before == after else 1]


# ====================================================================================== translator obligation
GEN_DIR = common.COQ / "gen"
_order = {}


def _coqc_gen(fname, timeout=300):
    return common.sh(["coqc", "-Q", "theories", "Verif", "-Q", "gen", "VerifGen", f"gen/{fname}"], timeout=timeout, cwd=common.COQ)


def prepare_order():
    """Translate the source, write gen/Gen_PrepareSteps.v, compile it and gen/Check_PrepareSteps.v.
    Returns {"paths": {name: steps}, "coq_ok": bool, "infra": message or None, "log": str}."""
    if _order:
        return _order
    infra = None
    try:
        paths, problems = tp.translate(common.REPO)
    except (tp.TranslateError, OSError, SyntaxError) as e:       # fail closed: the obligation is broken, not the tooling
        paths = {name: [("Unknown", f"translator: {type(e).__name__}: {e}"[:200])] for name in tp.PATHS}
        problems = []
    for p in problems:
        for name in paths:
            paths[name] = [("Unknown", "table: " + p[:200])] + list(paths[name])
    coq_ok, log = False, ""
    GEN_DIR.mkdir(exist_ok=True)
    with open(GEN_DIR / ".lock", "w") as lk:
        fcntl.flock(lk, fcntl.LOCK_EX)
        try:
            (GEN_DIR / "Gen_PrepareSteps.v").write_text(tp.emit_coq(paths, common.REPO))
            for f in sorted(GEN_DIR.glob("*.v")):
                txt = common.strip_comments(f.read_text())
                m = common.FORBIDDEN.search(txt)
                if m:
                    infra = f"forbidden construct {m.group(0)!r} in {f}"
            rc, out = _coqc_gen("Gen_PrepareSteps.v")
            if rc != 0:
                infra = infra or ("generated gen/Gen_PrepareSteps.v does not compile:\n" + out[-1500:])
            else:
                rc2, out2 = _coqc_gen("Check_PrepareSteps.v")
                log = out2
                coq_ok = rc2 == 0 and out2.count("Closed under the global context") >= 4 and "Axioms:" not in out2
        finally:
            fcntl.flock(lk, fcntl.LOCK_UN)
    _order.update(paths=paths, coq_ok=coq_ok, infra=infra, log=log)
    return _order


def run_prep(c):
    o = prepare_order()
    if c.get("path") == "run":
        return [tp.skeleton(o["paths"]["steps_run"]), bool(o["coq_ok"])]
    steps = o["paths"]["steps_cleanup_true" if c["cleanup"] else "steps_cleanup_false"]
    return [tp.skeleton(steps), bool(o["coq_ok"])]


def pre_checks(ctx):
    o = prepare_order()
    if o["infra"]:
        yield o["infra"]


# ---------------------------------------------------------------------------------------- dynamic table validation
class _Audit:
    hook_installed = False
    active = False
    in_prepare = False
    folder = None
    stack = []            # [callee, class]
    bad = set()           # (callee, class) misclassified
    seen_effects = set()

    WRITE_FLAGS = os.O_WRONLY | os.O_RDWR | os.O_CREAT | os.O_TRUNC | os.O_APPEND
    EVENTS = {"os.mkdir", "os.rename", "os.remove", "os.rmdir", "shutil.rmtree", "os.truncate", "os.link", "os.symlink",
              "shutil.copyfile", "shutil.move", "os.chmod", "os.utime"}

    @classmethod
    def hook(cls, event, args):
        if not (cls.active and cls.in_prepare):
            return
        if event == "open":
            path, mode, flags = args[0], args[1], args[2]
            writing = (isinstance(mode, str) and any(ch in mode for ch in "wax+")) or \
                      (mode is None and isinstance(flags, int) and (flags & cls.WRITE_FLAGS))
            if not writing:
                return
        elif event in cls.EVENTS:
            path = args[0]
        else:
            return
        try:
            p = os.path.abspath(os.fspath(path))
        except TypeError:
            return
        if isinstance(p, bytes):
            p = p.decode("utf-8", "replace")
        if cls.folder is None or not (p == cls.folder or p.startswith(cls.folder + os.sep)):
            return
        if not cls.stack:
            cls.bad.add(("<inline code of prepare_run>", "none"))
            return
        for callee, klass in cls.stack:
            if klass in ("Check", "Pure"):
                cls.bad.add((callee, klass))
        cls.seen_effects.add(cls.stack[-1][0])


def _wrap(callee, klass, fn):
    def wrapper(*a, **kw):
        if not (_Audit.active and _Audit.in_prepare):
            return fn(*a, **kw)
        _Audit.stack.append((callee, klass))
        before = snapshot(_Audit.folder) if klass == "Rewrite" else None
        try:
            return fn(*a, **kw)
        finally:
            _Audit.stack.pop()
            if before is not None and snapshot(_Audit.folder) != before:
                _Audit.bad.add((callee, klass))

    wrapper.__wrapped__ = fn
    return wrapper


@contextlib.contextmanager
def instrumented(folder):
    import importlib

    if not _Audit.hook_installed:
        sys.addaudithook(_Audit.hook)
        _Audit.hook_installed = True
    _Prep.install()
    saved = []
    for callee, (modname, attr) in tp.PATCH.items():
        klass = tp.TABLE[callee]
        mod = importlib.import_module(modname)
        owner, parts = mod, attr.split(".")
        for p in parts[:-1]:
            owner = getattr(owner, p)
        raw = inspect.getattr_static(owner, parts[-1])
        if isinstance(raw, staticmethod):
            new = staticmethod(_wrap(callee, klass, raw.__func__))
        elif isinstance(raw, classmethod):
            f = raw.__func__
            new = classmethod(_wrap(callee, klass, f))
        else:
            new = _wrap(callee, klass, raw)
        saved.append((owner, parts[-1], raw))
        setattr(owner, parts[-1], new)
    _Audit.folder = os.path.abspath(folder)
    _Audit.stack.clear()
    _Audit.bad = set()
    _Audit.active = True
    try:
        yield
    finally:
        _Audit.active = False
        for owner, name, raw in reversed(saved):
            setattr(owner, name, raw)


def run_classify(c):
    req = c["req"]
    with contextlib.redirect_stdout(io.StringIO()), contextlib.redirect_stderr(io.StringIO()):
        import warnings

        with warnings.catch_warnings():
            warnings.simplefilter("ignore")
            if req["prev"] is not None:
                d = existing_folder(req["funcs"], req["prev"])
            else:
                d = new_dir()
            try:
                with instrumented(d):
                    r = do_map(req, d, [])
            finally:
                if req["prev"] is None:
                    drop_dir(d)
    return sorted([list(x) for x in _Audit.bad])


# ====================================================================================== implementation driver
def run_impl(c):
    k = c["kind"]
    if k == "construct":
        return run_construct(c)
    if k == "map":
        return run_map(c)
    if k == "prep":
        return run_prep(c)
    if k == "classify":
        return run_classify(c)
    if k == "call":
        return run_call(c)
    if k == "mutate":
        return run_mutate(c)
    raise ValueError(k)


def run_call(c):
    """pipeline(o, **kw) on a pipegen pipeline (no MapSpecs)."""
    with contextlib.redirect_stdout(io.StringIO()):
        try:
            b = pipegen.build_cached(c["p"], slot="c12")
        except Exception:  # noqa: BLE001
            return ["bad-case"]
        try:
            b.pipeline(c["o"], **dict(c["kw"]))
            return ["accepted"]
        except Exception as e:  # noqa: BLE001
            return ["rejected", err_class(e), len(b.log.read())]


def pipe_func_lit(fd) -> str:
    return ("(Pipe.mkf " + cstr(fd["name"]) + " " + clist([cstr(o) for o in fd["outs"]]) + " "
            + clist([cpair(cstr(c), cstr(o)) for c, o in fd["params"]]) + " "
            + pipegen.alist_lit(pipegen.func_defaults(fd)) + " " + pipegen.alist_lit(list(fd["bound"].items())) + " "
            + cbool(bool(fd.get("cached", False))) + ")")


# ====================================================================================== Coq literals
def _alist(d):
    items = d.items() if isinstance(d, dict) else d
    return clist([cpair(cstr(k), cstr(str(v))) for k, v in items])


def _axes(ax):
    return clist([copt(a, cstr) for a in ax])


def _spec(sp):
    if sp is None:
        return "None"
    ins = clist(["{| aname := %s; axes := %s |}" % (cstr(n), _axes(ax)) for n, ax in sp["i"]])
    outs = clist(["{| aname := %s; axes := %s |}" % (cstr(n), _axes(ax)) for n, ax in sp["o"]])
    return "(Some {| ins := %s; outs := %s |})" % (ins, outs)


def func_lit(uf):
    return ("{| rname := %s; routs := %s; rparams := %s; rsigd := %s; rdefs := %s; rbound := %s; rspec := %s; rint := %s |}" % (
        cstr(uf["name"]), clist([cstr(o) for o in uf["outs"]]), clist([cstr(c) for c in cur_names(uf)]),
        _alist(uf["sigd"]), _alist(uf["defs"]), _alist(uf["bound"]), _spec(uf.get("spec")),
        clist([cnat(x) for x in uf.get("int") or []])))


def funcs_lit(funcs):
    return clist([func_lit(f) for f in funcs])


def _ival(v):
    if isinstance(v, str):
        return f"(IScalar {cstr(v)})"
    ctor = "IList" if v["k"] == "l" else "INd"
    return "(%s %s %s)" % (ctor, clist([cnat(x) for x in v["sh"]]), cstr("[" + ",".join(v["d"]) + "]"))


def _inputs(kvs):
    return clist([cpair(cstr(k), _ival(v)) for k, v in kvs])


def _shapes(d):
    return clist([cpair(cstr(k), clist([cnat(x) for x in v])) for k, v in (d or [])])


def _storage(st):
    if isinstance(st, str):
        return f"(StStr {cstr(st)})"
    return "(StDict %s)" % _alist(st)


def effective_funcs(c):
    fs = c["funcs"]
    if c.get("late"):
        j, sp = c["late"]
        fs = copy.deepcopy(fs)
        fs[j]["spec"] = sp
    return fs


def map_lit(c):
    prev = "None"
    if c["prev"] is not None:
        pf = "None" if not c.get("late") else "(Some %s)" % funcs_lit(c["funcs"])
        prev = "(Some {| pv_inputs := %s; pv_internal := %s; pv_funcs := %s |})" % (
            _inputs(c["prev"]["inputs"]), _shapes(c["prev"].get("internal")), pf)
    return ("{| q_funcs := %s; q_inputs := %s; q_internal := %s; q_storage := %s; q_registry := %s; q_parallel := %s; "
            "q_executor := %s; q_cleanup := %s; q_prev := %s |}") % (
        funcs_lit(effective_funcs(c)), _inputs(c["inputs"]), _shapes(c.get("internal")), _storage(c["storage"]),
        clist([cstr(x) for x in c["registry"]]), cbool(bool(c.get("parallel", False))), cbool(bool(c.get("executor"))),
        cbool(bool(c["cleanup"])), prev)


def mutation_lit(mu):
    op = mu["op"]
    if op == "MDefaults":
        return f"(MDefaults {cnat(mu['j'])} {_alist(mu['d'])})"
    if op == "MBound":
        return f"(MBound {cnat(mu['j'])} {_alist(mu['b'])} {cbool(bool(mu['ow']))})"
    if op == "MRename":
        return f"(MRename {cnat(mu['j'])} {_alist(mu['ren'])})"
    if op == "PDefaults":
        return f"(PDefaults {_alist(mu['d'])})"
    if op == "PRename":
        return f"(PRename {_alist(mu['ren'])})"
    if op == "PAdd":
        return f"(PAdd {func_lit(mu['f'])})"
    if op == "PReplace":
        return f"(PReplace {func_lit(mu['f'])})"
    raise ValueError(op)


def emit_case(c) -> str:
    k = c["kind"]
    if k == "construct":
        return f"(CConstruct {funcs_lit(c['funcs'])} {cbool(bool(c.get('claimed')))})"
    if k == "map":
        return f"(CMap {map_lit(c)} {cbool(bool(c.get('claimed')))})"
    if k == "prep":
        return "CRunOrder" if c.get("path") == "run" else f"(CPrepOrder {cbool(c['cleanup'])})"
    if k == "classify":
        return f"(CClassify {cnat(c['tag'])})"
    if k == "mutate":
        use = f"(URun {funcs_lit(c['funcs'])})" if c["use"] == "run" else f"(UMap {map_lit(c)})"
        return f"(CMutate {mutation_lit(c['mu'])} {use})"
    if k == "call":
        return (f"(CCall {clist([pipe_func_lit(f) for f in c['p']['funcs']])} {cstr(c['o'])} "
                f"{pipegen.alist_lit(c['kw'])} {cbool(bool(c.get('claimed')))})")
    raise ValueError(k)


# ====================================================================================== mutation operators
def _dc(x):
    return copy.deepcopy(x)


def rename_out(F, j, oi, new):
    """Rename the oi-th output of function j (also in its own MapSpec; consumers keep reading the old name)."""
    F[j]["outs"][oi] = new
    sp = F[j].get("spec")
    if sp and oi < len(sp["o"]):
        sp["o"][oi][0] = new


def _reads(f, g):
    return any(c in f["outs"] and c not in g["bound"] for c in cur_names(g))


def _ancestors(F):
    n = len(F)
    reach = [[_reads(F[i], F[j]) for j in range(n)] for i in range(n)]
    for k in range(n):
        for i in range(n):
            for j in range(n):
                if reach[i][k] and reach[k][j]:
                    reach[i][j] = True
    return reach


def _rename_index(sp, x, new):
    for side in ("i", "o"):
        for a in sp[side]:
            a[1] = [new if ax == x else ax for ax in a[1]]


def construct_mutants(F, rng, cap):
    """[(tag, mutated funcs)] - each a single-fault mutation of the valid description F."""
    out = []
    n = len(F)
    pairs = [(i, j) for i in range(n) for j in range(n) if i != j]
    if len(pairs) > cap:
        pairs = rng.sample(pairs, cap)
    for i, j in pairs:                                             # output-name collision across functions
        G = _dc(F)
        rename_out(G, j, 0, F[i]["outs"][-1])
        out.append(("dup_output", G))
    for j in range(n):
        if len(F[j]["outs"]) > 1:                                  # ... inside one tuple
            G = _dc(F)
            rename_out(G, j, 1, F[j]["outs"][0])
            out.append(("dup_in_tuple", G))
            G = _dc(F)
            if G[j].get("spec"):
                G[j]["spec"]["o"].reverse()
                out.append(("spec_out_order", G))
        ps = cur_names(F[j])
        for oi in sorted({0, len(F[j]["outs"]) - 1}):              # output named like an own parameter
            for pi in range(len(ps)):
                G = _dc(F)
                rename_out(G, j, oi, ps[pi])
                out.append(("out_eq_param", G))
    anc = _ancestors(F)
    for i, j in pairs:                                             # added dependency edge i <- outs(j)
        o = F[j]["outs"][0]
        if o in cur_names(F[i]):
            continue
        G = _dc(F)
        G[i]["params"].insert(0, [o, o])
        out.append(("back_edge" if anc[i][j] else "extra_edge", G))
    outs_all = {o for f in F for o in f["outs"]}
    for i, j in pairs:                                             # changed default on a shared parameter
        di = dict(fdefaults(F[i]))
        for k in di:
            if k in outs_all or k in F[j]["bound"] or k in F[i]["bound"] or k in F[j]["outs"]:
                continue
            G = _dc(F)
            if k not in cur_names(F[j]):                           # make the parameter shared first
                G[j]["params"].insert(0, [k, k])
                G[j]["defs"][k] = "X_" + k
                out.append(("new_shared_default", G))
            else:
                G[j]["defs"][k] = "X_" + k
                out.append(("changed_default", G))
    for j in range(n):
        sp = F[j].get("spec")
        if not sp:
            continue
        for q in range(len(sp["i"])):                              # MapSpec input that is not a parameter
            G = _dc(F)
            G[j]["spec"]["i"][q][0] = "qq"
            out.append(("spec_in_not_param", G))
            G = _dc(F)
            G[j]["bound"][sp["i"][q][0]] = "B"
            out.append(("spec_bound_input", G))
            ax = sp["i"][q][1]
            G = _dc(F)
            G[j]["spec"]["i"][q][1] = ax + [None]
            out.append(("rank_add", G))
            if len(ax) >= 2:
                G = _dc(F)
                G[j]["spec"]["i"][q][1] = ax[:-1]
                out.append(("rank_drop", G))
                if ax[0] != ax[1]:
                    G = _dc(F)
                    G[j]["spec"]["i"][q][1] = [ax[1], ax[0]] + ax[2:]
                    out.append(("axis_swap", G))
        G = _dc(F)                                                 # MapSpec output != output name
        G[j]["spec"]["o"][0][0] = sp["o"][0][0] + "x"
        out.append(("spec_out_mismatch", G))
        idx = sorted({a for side in ("i", "o") for _, ax in sp[side] for a in ax if a is not None})
        for x in idx:                                              # index renamed in ONE function's MapSpec
            G = _dc(F)
            _rename_index(G[j]["spec"], x, "q9")
            out.append(("axis_rename", G))
    return out


def _regen(name, sh):
    n = 1
    for d in sh:
        n *= d
    return [f"{name}_{t}" for t in range(n)]


def _mapped_keys(F):
    return [",".join(f["outs"]) for f in F if f.get("spec") and f["spec"]["i"]]


def _unmapped_keys(F):
    return [",".join(f["outs"]) for f in F if not (f.get("spec") and f["spec"]["i"])]


def map_mutants(F, req):
    """[(tag, fields to override)] - single-fault mutations of the valid request `req` on the valid pipeline F."""
    out = []
    inputs, base_st = req["inputs"], req["storage"]
    for k in range(len(inputs)):
        out.append(("drop_input", {"inputs": inputs[:k] + inputs[k + 1:]}))
    out.append(("surplus_fresh", {"inputs": inputs + [["zz", "ZZ"]]}))
    out.append(("surplus_output", {"inputs": inputs + [[F[0]["outs"][0], "S"]]}))
    for k, (name, v) in enumerate(inputs):
        if isinstance(v, str):
            continue
        for ax in range(len(v["sh"])):
            sh = list(v["sh"])
            sh[ax] += 1
            nv = dict(v, sh=sh, d=_regen(name, sh))
            out.append(("resize_axis", {"inputs": inputs[:k] + [[name, nv]] + inputs[k + 1:]}))
        sh = list(v["sh"]) + [2]
        nv = dict(v, sh=sh, d=_regen(name, sh), k="nd")
        out.append(("rank_up", {"inputs": inputs[:k] + [[name, nv]] + inputs[k + 1:]}))
        if len(v["sh"]) >= 2:
            sh = list(v["sh"])[:-1]
            nv = dict(v, sh=sh, d=_regen(name, sh))
            out.append(("rank_down", {"inputs": inputs[:k] + [[name, nv]] + inputs[k + 1:]}))
            out.append(("list_for_nd", {"inputs": inputs[:k] + [[name, dict(v, k="l")]] + inputs[k + 1:]}))
        else:
            out.append(("scalar_for_array", {"inputs": inputs[:k] + [[name, name.upper()]] + inputs[k + 1:]}))
            out.append(("kind_flip", {"inputs": inputs[:k] + [[name, dict(v, k="nd" if v["k"] == "l" else "l")]] + inputs[k + 1:]}))
    out.append(("storage_unknown", {"storage": BOGUS}))
    out.append(("storage_unknown_default", {"storage": [["", BOGUS]]}))
    mk, uk = _mapped_keys(F), _unmapped_keys(F)
    for key in mk[:2]:
        out.append(("storage_unknown_mapped", {"storage": [["", base_st], [key, BOGUS]]}))
    for key in uk[:1]:
        out.append(("storage_unknown_unmapped", {"storage": [["", base_st], [key, BOGUS]]}))
    out.append(("storage_unknown_unused", {"storage": [["", base_st], ["nonexistent", BOGUS]]}))
    if mk:
        out.append(("storage_missing_entry", {"storage": [[mk[0] + "_other", base_st]]}))
    out.append(("storage_dict_valid", {"storage": [["", base_st]]}))
    out.append(("executor_not_parallel", {"executor": True}))
    # a MapSpec replaced after construction: index renamed in one function whose arrays are shared with another spec
    shared = {}
    for j, f in enumerate(F):
        if f.get("spec"):
            for n_, _ax in f["spec"]["i"] + f["spec"]["o"]:
                shared.setdefault(n_, set()).add(j)
    for j, f in enumerate(F):
        sp = f.get("spec")
        if sp and any(len(shared[n_]) > 1 for n_, ax in sp["i"] + sp["o"]):
            idx = sorted({a for side in ("i", "o") for n_, ax in sp[side] for a in ax if a is not None and len(shared[n_]) > 1})
            if idx:
                sp2 = _dc(sp)
                _rename_index(sp2, idx[0], "q9")
                out.append(("late_axis_rename", {"late": [j, sp2]}))
                break
    return out


def _new_func(name, outs, params):
    return {"name": name, "outs": list(outs), "params": [[p, p] for p in params], "sigd": {}, "defs": {}, "bound": {},
            "spec": None, "int": []}


def mutations_for(F, rng, cap):
    """[(tag, mutation)] - ONE call of the PipeFunc / Pipeline API on the valid pipeline F (some make it ill-formed)."""
    out = []
    n = len(F)
    outs_all = {o for f in F for o in f["outs"]}
    pairs = [(i, j) for i in range(n) for j in range(n) if i != j]
    if len(pairs) > cap:
        pairs = rng.sample(pairs, cap)
    anc = _ancestors(F)

    def free_root(f, k):
        return k not in outs_all and k not in f["bound"]

    for i, j in pairs:
        di = dict(fdefaults(F[i]))
        dj = dict(fdefaults(F[j]))
        for k in di:                                             # default changed on ONE member / on the pipeline
            if k in cur_names(F[j]) and free_root(F[i], k) and free_root(F[j], k):
                out.append(("m_defaults_inconsistent", {"op": "MDefaults", "j": j, "d": [[k, "X_" + k]]}))
                out.append(("m_defaults_same", {"op": "MDefaults", "j": j, "d": [[k, di[k]]]}))
                out.append(("p_defaults", {"op": "PDefaults", "d": [[k, "X_" + k]]}))
                G = _dc(F[j])
                G["defs"][k] = "X_" + k
                out.append(("p_replace_inconsistent", {"op": "PReplace", "f": G}))
                if F[j]["bound"] == {} and k in dj:
                    out.append(("m_bind_shared", {"op": "MBound", "j": j, "b": [[k, "B_" + k]], "ow": False}))
        oi, oj = F[i]["outs"][-1], F[j]["outs"][0]               # an output renamed onto another function's output
        out.append(("m_rename_out_dup", {"op": "MRename", "j": j, "ren": [[oj, oi]]}))
        out.append(("p_rename_out_dup", {"op": "PRename", "ren": [[oj, oi]]}))
        if anc[i][j]:                                            # a root parameter renamed onto a descendant's output
            for p_ in cur_names(F[i]):
                if free_root(F[i], p_) and oj not in cur_names(F[i]):
                    out.append(("m_rename_cycle", {"op": "MRename", "j": i, "ren": [[p_, oj]]}))
                    out.append(("p_rename_cycle", {"op": "PRename", "ren": [[p_, oj]]}))
                    break
        for d_ in dj:                                            # two differently defaulted parameters made to meet
            for b_ in di:
                if (b_ != d_ and free_root(F[j], d_) and free_root(F[i], b_) and b_ not in cur_names(F[j])
                        and b_ not in F[j]["outs"] and str(di[b_]) != str(dj[d_])):
                    out.append(("m_rename_defaults_meet", {"op": "MRename", "j": j, "ren": [[d_, b_]]}))
                    out.append(("p_rename_defaults_meet", {"op": "PRename", "ren": [[d_, b_]]}))
    for j in range(n):
        ps = cur_names(F[j])
        if ps:                                                   # an output renamed onto an own parameter
            out.append(("m_rename_out_own_param", {"op": "MRename", "j": j, "ren": [[F[j]["outs"][0], ps[0]]]}))
            out.append(("m_rename_fresh", {"op": "MRename", "j": j, "ren": [[ps[-1], "fresh_q"]]}))
            free = [k for k in ps if k not in F[j]["bound"] and k not in F[j]["defs"]
                    and not (F[j].get("spec") and any(k == a for a, _ in F[j]["spec"]["i"]))]
            if free:
                out.append(("m_bind", {"op": "MBound", "j": j, "b": [[free[0], "B_" + free[0]]], "ow": False}))
        if F[j]["bound"]:
            out.append(("m_unbind", {"op": "MBound", "j": j, "b": [], "ow": True}))
        if j == 0:
            out.append(("m_defaults_unknown_key", {"op": "MDefaults", "j": j, "d": [["nokey", "v"]]}))
            out.append(("m_rename_unknown_key", {"op": "MRename", "j": j, "ren": [["nokey", "other"]]}))
            out.append(("p_replace_same", {"op": "PReplace", "f": _dc(F[j])}))
    roots = [k for f in F for k in cur_names(f) if free_root(f, k)]
    if roots:
        out.append(("p_rename_fresh", {"op": "PRename", "ren": [[roots[0], "fresh_r"]]}))
    out.append(("p_defaults_unused", {"op": "PDefaults", "d": [["nokey", "v"]]}))
    out.append(("p_rename_unused", {"op": "PRename", "ren": [["nokey", "other"]]}))
    out.append(("p_add_dup", {"op": "PAdd", "f": _new_func("fnew", [F[0]["outs"][0]], ["znew"])}))
    out.append(("p_add_valid", {"op": "PAdd", "f": _new_func("fnew", ["onew"], [F[-1]["outs"][0]])}))
    out.append(("p_add_out_eq_param", {"op": "PAdd", "f": _new_func("fnew", ["onew"], ["onew"])}))
    out.append(("p_replace_missing", {"op": "PReplace", "f": _new_func("fnew", ["onew"], ["znew"])}))

    def rename_keeps_params_distinct(mu):
        # a rename that makes two parameters of one function equal is outside the model (Python itself forbids it
        # for a signature; pipefunc reports it through its one-to-one check)
        if mu["op"] not in ("MRename", "PRename"):
            return True
        ren = dict(mu["ren"])
        fs = [F[mu["j"]]] if mu["op"] == "MRename" else F
        for f in fs:
            ps = [ren.get(k, k) for k in cur_names(f)]
            if len(set(ps)) != len(ps):
                return False
        return True

    return [(t, m) for t, m in out if rename_keeps_params_distinct(m)]


def with_shared_defaults(F, req):
    """The same valid request, with an (equal) explicit default on every scalar root shared by >= 2 functions."""
    scal = [k for k, v in req["inputs"] if isinstance(v, str)]
    G = _dc(F)
    changed = False
    for k in scal:
        users = [f for f in G if k in cur_names(f) and k not in f["bound"]]
        if len(users) >= 2:
            for f in users:
                f["defs"][k] = "D_" + k
            changed = True
    return G if changed else None


# ====================================================================================== generator
def _map_case(F, req, over, mode, tag, registry, claimed=False):
    c = {"kind": "map", "funcs": F, "inputs": req["inputs"], "internal": req["internal"], "storage": req["storage"],
         "registry": registry, "parallel": False, "executor": False, "cleanup": mode == "cleanup", "late": None,
         # the previous run is written with storage "dict" when the request uses shared_memory_dict: resuming a folder
         # written by shared_memory_dict unpickles a dead DictProxy (defect of C04's domain, not of C12)
         "prev": None if mode == "fresh" else {"inputs": req["inputs"], "internal": req["internal"],
                                               "storage": "dict" if req["storage"] == "shared_memory_dict" else req["storage"]},
         "tag": tag, "mode": mode, "claimed": claimed}
    c.update(over)
    return c


def base_request(rng):
    while True:
        r = mapgen.gen_request(rng)
        if mapgen.request_size(r) <= 30:
            break
    F = [uf_from_mapgen(f) for f in r["funcs"]]
    inputs = [[k, v if isinstance(v, str) else {"k": "l" if v["as"] == "list" else "nd", "sh": v["sh"], "d": v["d"]}]
              for k, v in r["inputs"]]
    return F, {"inputs": inputs, "internal": r["internal"], "storage": r["storage"]}


def call_cases(rng, pd):
    """pipeline(o, **kw) with the root arguments of o: complete, each keyword dropped, a surplus keyword."""
    out = []
    try:
        pl = pipegen.build_cached(pd, slot="gen").pipeline
    except Exception:  # noqa: BLE001
        return out
    outs = pipegen.outputs_of(pd)
    roots_all = pipegen.root_names(pd)
    for o in rng.sample(outs, min(2, len(outs))):
        try:
            ra = list(pl.root_args(o))
        except Exception:  # noqa: BLE001
            continue
        kw = [[n, pipegen.value_for(rng, n)] for n in ra]
        rng.shuffle(kw)
        out.append({"kind": "call", "p": pd, "o": o, "kw": kw, "tag": "valid", "claimed": True})
        for j in range(len(kw)):
            out.append({"kind": "call", "p": pd, "o": o, "kw": kw[:j] + kw[j + 1:], "tag": "drop_kw", "claimed": False})
        out.append({"kind": "call", "p": pd, "o": o, "kw": kw + [["zz", "v_zz"]], "tag": "surplus_fresh", "claimed": False})
        other = [n for n in roots_all if n not in ra]
        if other:
            n = rng.choice(other)
            out.append({"kind": "call", "p": pd, "o": o, "kw": kw + [[n, "v_" + n]], "tag": "surplus_root", "claimed": False})
    return out


def generate(rng, tier, mult):
    from pipefunc.map import storage_registry

    registry = list(storage_registry)
    quick = tier == "quick"
    cases = [{"kind": "prep", "cleanup": False}, {"kind": "prep", "cleanup": True},
             {"kind": "prep", "cleanup": False, "path": "run"}]
    n_pipe = (25 if quick else 330) * mult
    n_mapc = (12 if quick else 200) * mult
    n_req = (22 if quick else 270) * mult
    n_cls = (6 if quick else 40) * mult
    n_mut = (10 if quick else 120) * mult
    cap = 6 if quick else 12
    # construction level: pipelines of pipegen
    for _ in range(n_pipe):
        pd = pipegen.gen_pipeline(rng, nmax=5)
        F = [uf_from_pipegen(f) for f in pd["funcs"]]
        cases.append({"kind": "construct", "funcs": F, "tag": "valid", "src": "pipegen", "claimed": True})
        order = list(range(len(F)))
        rng.shuffle(order)
        if order != sorted(order):
            cases.append({"kind": "construct", "funcs": [F[i] for i in order], "tag": "valid_reordered", "src": "pipegen",
                          "claimed": True})
        for tag, G in construct_mutants(F, rng, cap):
            cases.append({"kind": "construct", "funcs": G, "tag": tag, "src": "pipegen", "claimed": False})
        cases += call_cases(rng, pd)
        if quick or _ % 2 == 0:
            for tag, mu in mutations_for(F, rng, cap):
                cases.append({"kind": "mutate", "use": "run", "funcs": F, "mu": mu, "tag": tag})
    # construction level: map pipelines of mapgen (MapSpec faults)
    for _ in range(n_mapc):
        F, _req = base_request(rng)
        cases.append({"kind": "construct", "funcs": F, "tag": "valid", "src": "mapgen", "claimed": True})
        for tag, G in construct_mutants(F, rng, cap):
            cases.append({"kind": "construct", "funcs": G, "tag": tag, "src": "mapgen", "claimed": False})
    # map level
    for b in range(n_req):
        F, req = base_request(rng)
        for mode in ("fresh", "existing", "cleanup"):
            cases.append(_map_case(F, req, {}, mode, "valid", registry, claimed=(mode != "existing")))
        muts = map_mutants(F, req)
        for tag, over in muts:
            for mode in ("fresh", "existing"):
                cases.append(_map_case(F, req, over, mode, tag, registry))
            if rng.random() < 0.25:
                cases.append(_map_case(F, req, over, "cleanup", tag, registry))
        if b < n_mut:
            for G in (F, with_shared_defaults(F, req)):
                if G is None:
                    continue
                for tag, mu in mutations_for(G, rng, cap):
                    c = _map_case(G, req, {}, "existing", tag, registry)
                    c.update(kind="mutate", use="map", mu=mu)
                    cases.append(c)
        if b < n_cls:
            for mode in (("existing", "fresh", "cleanup") if b % 2 == 0 else ("existing",)):
                cases.append({"kind": "classify", "tag": len(cases), "req": _map_case(F, req, {}, mode, "valid", registry)})
    return cases


# ====================================================================================== bookkeeping
def nontrivial_key(c):
    if c["kind"] in ("prep", "classify"):
        return (c["kind"], c.get("cleanup"), c.get("tag"), c.get("path"))
    fs = c["p"]["funcs"] if c["kind"] == "call" else c["funcs"]
    if c.get("tag", "").startswith("valid") and len(fs) < 2:
        return None
    body = {k: v for k, v in c.items() if k not in ("tag", "src", "claimed", "registry")}
    return hashlib.md5(json.dumps(body, sort_keys=True).encode()).hexdigest()


def distribution(c):
    d = {"kind": c["kind"]}
    if c["kind"] == "construct":
        d["fault"] = c["src"] + ":" + c["tag"]
        d["nfuncs"] = len(c["funcs"])
    elif c["kind"] == "map":
        d["fault"] = c["mode"] + ":" + c["tag"]
        d["nfuncs"] = len(c["funcs"])
        d["storage"] = c["storage"] if isinstance(c["storage"], str) else "dict"
    elif c["kind"] == "call":
        d["fault"] = "call:" + c["tag"]
        d["nfuncs"] = len(c["p"]["funcs"])
    elif c["kind"] == "mutate":
        d["fault"] = "mutate-" + c["use"] + ":" + c["tag"]
        d["nfuncs"] = len(c["funcs"])
    return d


def finding_id(c, impl_obs, kind):
    """No known findings; the id only groups violations so that one replay per class of failing cases is reported."""
    if c["kind"] == "prep":
        return f"prepare_order:cleanup={c['cleanup']}:{c.get('path', 'map')}"
    if c["kind"] == "classify":
        return "classification_table"
    if c["kind"] == "mutate":
        return f"mutate-{c['use']}:{c.get('tag')}"
    if c["kind"] == "call":
        return f"call:{c.get('tag')}"
    return f"{c['kind']}:{c.get('tag')}"


def shrink(c):
    out = []
    if c["kind"] == "call":
        fs = c["p"]["funcs"]
        for j in range(len(fs)):
            if len(fs) > 1:
                d = dict(c)
                d["p"] = {"funcs": fs[:j] + fs[j + 1:]}
                out.append(d)
        for j in range(len(c["kw"])):
            d = dict(c)
            d["kw"] = c["kw"][:j] + c["kw"][j + 1:]
            out.append(d)
        return out
    if c["kind"] == "mutate":
        return out
    if c["kind"] == "map":
        fs = c["funcs"]
        for j in range(len(fs) - 1, -1, -1):          # drop a function nobody reads (and the inputs only it used)
            if len(fs) < 2 or (c.get("late") and c["late"][0] >= j):
                continue
            produced = set(fs[j]["outs"])
            if any(produced & set(cur_names(g)) for g in fs):
                continue
            d = copy.deepcopy(c)
            d["funcs"] = fs[:j] + fs[j + 1:]
            used = {p for g in d["funcs"] for p in cur_names(g)}
            keep = lambda kvs: [kv for kv in kvs if kv[0] in used or kv[0] == "zz"]   # noqa: E731
            d["inputs"] = keep(d["inputs"])
            d["internal"] = [kv for kv in (d.get("internal") or []) if kv[0] not in produced]
            if d["prev"] is not None:
                d["prev"]["inputs"] = keep(d["prev"]["inputs"])
                d["prev"]["internal"] = [kv for kv in (d["prev"].get("internal") or []) if kv[0] not in produced]
            out.append(d)
        if c["prev"] is not None and not c["cleanup"]:
            d = copy.deepcopy(c)
            d["prev"] = None
            d["mode"] = "fresh"
            out.append(d)
        return out
    if c["kind"] not in ("construct",):
        return out
    fs = c["funcs"]
    for j in range(len(fs)):
        if len(fs) > 1:
            d = dict(c)
            d["funcs"] = fs[:j] + fs[j + 1:]
            out.append(d)
    for j, f in enumerate(fs):
        for key in ("bound", "defs", "sigd"):
            for k in list(f[key]):
                f2 = dict(f)
                f2[key] = {a: b for a, b in f[key].items() if a != k}
                d = dict(c)
                d["funcs"] = fs[:j] + [f2] + fs[j + 1:]
                out.append(d)
    return out
