"""C13 - User-function failures surface unchanged, attributed and reproducible."""
from __future__ import annotations

import asyncio
import contextlib
import io
import json
import multiprocessing
import os
import pickle
import select
import shutil
import signal
import struct
import tempfile
import time

from .. import failsym, mapgen, mapsym, pipegen
from ..coqlit import Err, cbool, clist, cnat, cstr
from ..exc_types import KINDS, exc_desc, make_exc
from ..symfuncs import FileLog, ListLog, canon

PROP = "C13"
RUN = "Run_C13"
THEOREMS = "Props/C13.v"
ANCHORS = [
    ("pipefunc/_utils.py", ["handle_error", "format_function_call", "format_kwargs"]),
    ("pipefunc/_pipefunc.py", ["PipeFunc.__call__", "ErrorSnapshot", "ErrorSnapshot.reproduce",
                               "ErrorSnapshot.save_to_file", "ErrorSnapshot.load_from_file"]),
    ("pipefunc/_pipeline/_base.py", ["_execute_func", "Pipeline.error_snapshot", "Pipeline._run", "Pipeline.run"]),
    ("pipefunc/map/_run.py", ["run_map", "run_map_async", "_run_iteration", "_run_iteration_and_process",
                              "_execute_single", "_maybe_execute_single", "_maybe_parallel_map", "_submit",
                              "_maybe_executor", "_result", "_result_async", "_process_task", "_process_task_async",
                              "_process_generation", "_process_generation_async", "_submit_generation",
                              "_submit_func", "_run_and_process_generation", "_run_and_process_generation_async",
                              "_update_array", "_output_from_mapspec_task", "_dump_single_output",
                              "_maybe_persist_memory", "_expose_error_snapshots", "_keep_completed_elements"]),
    ("pipefunc/map/_prepare.py", ["prepare_run", "_cannot_be_parallelized"]),
]
RULE = ("pipelines of harness/pipegen.py (1..5 structural functions; every output; root arguments as keywords, and for "
        "half of the outputs also another element of arg_combinations, i.e. supplied intermediates) and "
        "valid map requests of harness/mapgen.py (1..3 functions, axis sizes 1..3, all three storages) x EVERY "
        "invocation of the run (function, call index) as the failing one x exception kinds {ValueError('m'), "
        "KeyError('k'), CustomError('p','q') (importable, picklable), RuntimeError()} x entry points pipeline(...), "
        "run(full_output=..), func(o)(...), map(parallel=False), map(executor=ThreadPoolExecutor), both also with "
        "output_names=<all outputs> (map then executes a subpipeline copy), and a process-pool smoke set (5 requests x "
        "first/middle/last invocation x every kind x explicit ProcessPoolExecutor / parallel=True / map_async, user "
        "functions as non-importable closures), and a slow-earlier-element set (sync map and map_async on a 4-worker "
        "thread pool, an earlier element of the failing function sleeps 0.4 s while the first/middle/last element "
        "raises at once, every kind), and histories (two failing calls on one pipeline object sharing ONE exception "
        "instance: pipeline(...)/run/func, map sequential and thread pool; failing maps RESUMED with cleanup=False "
        "after an earlier failure at element >= 1, dict / file_array / shared_memory_dict); thorough adds "
        "map(executor=ProcessPoolExecutor), map(parallel=True) with pipefunc's own pool, map_async with thread and "
        "process pools, and every kind for every invocation (quick rotates the kinds); + a few runs without failure; "
        "non-trivial = >= 2 invocations in the run; distinct by (pipeline/request, failing invocation, kind, entry)")
ASSUMPTIONS = [
    "PARTIAL: 'the call returns instead of hanging' is a liveness property of concurrent.futures / the OS; it is "
    "checked on every explored case by a harness timeout (a run exceeding it is the observation Err(Timeout) and a "
    "violation), it is NOT proved",
    "user functions are deterministic in their keyword arguments (the failing invocation is identified by its call "
    "string), which is what makes reproduce() meaningful; one failing invocation per run",
    "process pools: only exception class and args are demanded (notes / ErrorSnapshot are per-process and may be "
    "lost by pickling); the custom exception class is importable in the workers",
    "ErrorSnapshot.save_to_file/load_from_file = cloudpickle round trip, modelled as the identity",
    "every run with an executor happens in a forked child of the check under a hard 40 s limit (sequential runs: "
    "SIGALRM in-process), so a hang is an observation, never a hang of the check",
    "the output_names=<all outputs> entry points are only explored for requests whose subpipeline run invokes the "
    "same functions (Pipeline.subpipeline drops functions that are not downstream of a supplied input)",
    "executor runs are observed after the executor has been shut down (with Executor() as ex: ...), the call log is "
    "compared as a multiset there; real interleavings inside a generation are sampled, not proved",
    "'completed before the failure' = invocations logged before the failing one (sequential) / invocations of "
    "earlier generations (executor); 'loadable' = load_outputs on the run folder returns the element",
    "fresh Pipeline object per case (ErrorSnapshot is 'last failure of that function in this process'), except the "
    "HISTORY cases: an earlier failing call / sequential map on the same pipeline raises the SAME exception instance "
    "as the observed one; add_note appends, so the instance then carries the older notes too: 'annotated with the "
    "failing function's name and the keyword arguments of the failing invocation' is read as 'the annotation added "
    "by THIS failure -- the LAST note -- names this invocation' (older notes may precede it); after a failure in "
    "another function Pipeline.error_snapshot is by design that older snapshot, so only the failing function's own "
    "snapshot is judged there",
    "RESUMED failing maps (cleanup=False on the run folder of an earlier failed sequential run; the observed run "
    "executes only the missing part of the index space, not starting at 0) are judged as ONE run failing at the "
    "observed invocation: call log = completed calls of the first run + calls of the resumed run, store = what "
    "load_outputs returns afterwards, element by element against the model; fixed_indices are not modelled",
    "storage='shared_memory_dict' is only explored with parallel=False and with pipefunc's own pool: with a "
    "caller-owned executor, tasks of the failing generation may still be running when map raises and persists the "
    "shared dict, so the persisted content of THAT generation is timing dependent (nothing is claimed about it)",
]
TRUSTED = ["Model/Failing.v + Model/FailingMap.v mirror handle_error / _execute_func / PipeFunc.__call__ / the "
           "generation loop of pipefunc/map/_run.py by hand; tie = per-run differential execution",
           "harness/failsym.py (structural failing bodies, parsing of __notes__ by evaluating the repr of the kwargs), "
           "harness/exc_types.py", "Model/MapRun.v building blocks and Model/MapDenote.v (C01)"]

TIMEOUT_S = 40.0
SLOW_DELAY_S = 0.4        # duration of a 'slow' invocation (cases of _gen_slow_earlier)
# run folders / call logs / snapshot files: a RAM-backed directory when there is one (the root file system of the
# sandbox needs ~3 ms per unlink), always removed
TMP_BASE = "/dev/shm" if os.path.isdir("/dev/shm") and os.access("/dev/shm", os.W_OK) else None
# "...sub": the same call with output_names=<all outputs>, which makes map execute a subpipeline COPY
INPROC = {"seq": True, "thread": True, "athread": True, "proc": False, "procdefault": False, "aproc": False,
          "seqsub": True, "threadsub": True}
ENTRY_NO = {"seq": 0, "thread": 1, "proc": 2, "procdefault": 3, "athread": 4, "aproc": 5, "seqsub": 6, "threadsub": 7}


def _base(mode):
    return mode[:-3] if mode.endswith("sub") else mode
DUMP_SUB = {"file_array": True, "dict": False, "shared_memory_dict": True}


# ------------------------------------------------------------------ Coq literals
def _exn_lit(kind):
    cls, args = exc_desc(kind)
    return f"(mkexn {cstr(cls)} {clist([cstr(a) for a in args])})"


def emit_case(c) -> str:
    if c["kind"] == "pipe":
        return (f"(CPipe {pipegen.pipeline_lit(c['p'])} {cstr(c['o'])} {pipegen.alist_lit(c['kw'])} "
                f"{cbool(c['full'])} {cnat(c['entry'])} {cstr(c['tgt'])} {_exn_lit(c['exc'])})")
    req = c["req"]
    by_name = {f["name"]: f for f in req["funcs"]}
    gens = clist([clist([mapgen.func_lit(by_name[n]) for n in g]) for g in c["gens"]])
    mode = c["mode"]
    return (f"(CMap {gens} {mapgen._env(req['inputs'])} {mapgen.shapes_lit(req.get('internal'))} "
            f"{cbool(DUMP_SUB[req['storage']])} {cbool(_base(mode) != 'seq')} {cbool(INPROC[mode])} "
            f"{cnat(ENTRY_NO[mode])} {cstr(c['tgt'])} {_exn_lit(c['exc'])})")


# ------------------------------------------------------------------ observations
def _exc_obs(e, kind):
    """A user exception of the injected class is reported with its class name and args; anything else as enum."""
    if type(e).__name__ == KINDS[kind][0].__name__:
        return ["raised", type(e).__name__, [str(a) for a in e.args]]
    return Err(e)


def _repro(sn):
    sink = io.StringIO()
    try:
        with contextlib.redirect_stdout(sink):
            sn.reproduce()
    except Exception as e:  # noqa: BLE001
        return [type(e).__name__, [str(a) for a in e.args]]
    return ["returned"]


def _snap_obs(pl, ffn, cn, sort_kwargs=True, history=False):
    """ErrorSnapshot exposed by the failing function AND by the pipeline (the same object).
    history=True (an earlier call on the same pipeline failed in ANOTHER function): Pipeline.error_snapshot is by
    design the snapshot of the first function that has one, so only the failing function's own snapshot is observed."""
    from pipefunc import ErrorSnapshot

    funcs = [f for f in pl.functions if f.__name__ == ffn]
    fs = funcs[0].error_snapshot if funcs else None
    ps = pl.error_snapshot
    if fs is None and ps is None:
        return ["nosnap"]
    if fs is None or (ps is not fs and not (history and ps is not None)):
        return ["snap-mismatch", fs is not None, ps is not None]
    r1 = _repro(fs)
    fd, path = tempfile.mkstemp(prefix="verif_snap_", dir=TMP_BASE)
    os.close(fd)
    try:
        fs.save_to_file(path)
        loaded = ErrorSnapshot.load_from_file(path)
        r2 = _repro(loaded)
    except Exception as e:  # noqa: BLE001
        r2 = ["save-load-failed", type(e).__name__]
    finally:
        with contextlib.suppress(OSError):
            os.remove(path)
    kws = [[k, cn(v)] for k, v in fs.kwargs.items()]
    if sort_kwargs:
        kws.sort()
    if fs.args:
        kws.append(["*args", str(len(fs.args))])
    return ["snap", getattr(fs.function, "__name__", "?"), kws,
            [type(fs.exception).__name__, [str(a) for a in fs.exception.args]], r1, r2]


def _kill_children():
    for p in multiprocessing.active_children():
        with contextlib.suppress(Exception):
            p.kill()


# ------------------------------------------------------------------ implementation driver: pipeline calls
def _run_pipe(c):
    log = ListLog()
    sink = io.StringIO()
    try:
        pl = failsym.build_pipe(c["p"], log, c["tgt"], c["exc"])
    except Exception:  # noqa: BLE001
        return ["bad-case"]
    o, kw, full, entry = c["o"], dict(c["kw"]), c["full"], c["entry"]
    exc, val = None, None
    pre = c.get("prelude")
    if pre:
        # a history: an earlier call on the SAME pipeline fails in another invocation, raising the SAME exception
        # instance that the observed call raises
        shared = make_exc(c["exc"])
        failsym.retarget(pl, pre["tgt"], shared)
        with contextlib.suppress(Exception), contextlib.redirect_stdout(sink):
            pl.run(o, kwargs=kw) if pre.get("entry", 1) == 1 else pl(o, **kw)
        log.clear()
        failsym.retarget(pl, c["tgt"], shared)
    try:
        with failsym.time_limit(TIMEOUT_S), contextlib.redirect_stdout(sink):
            if entry == 0:
                val = pl(o, **kw)
            elif entry == 1:
                val = pl.run(o, full_output=full, kwargs=kw)
            else:
                val = pl.func(o).call_full_output(**kw) if full else pl.func(o)(**kw)
    except failsym.HarnessTimeout:
        return Err("Timeout")
    except Exception as e:  # noqa: BLE001
        exc = e
    lines = log.read()
    if exc is None:
        res = ["ok", [[k, canon(v)] for k, v in sorted(val.items())] if full else canon(val)]
        note = ["notes", 0]
    else:
        res = _exc_obs(exc, c["exc"])
        note = failsym.notes_obs(exc, canon, last=bool(pre)) if getattr(exc, "__notes__", None) else ["notes", 0]
    return [res, note, lines, _snap_obs(pl, c["ffn"], canon, history=bool(pre))]


# ------------------------------------------------------------------ implementation driver: map
def _map_call(pl, c, folder, cleanup=True):
    from concurrent.futures import ProcessPoolExecutor, ThreadPoolExecutor

    req, mode = c["req"], c["mode"]
    inputs = mapsym.map_inputs(req)
    kw = {"run_folder": folder, "internal_shapes": mapsym.internal_arg(req), "storage": req["storage"],
          "cleanup": cleanup}
    if mode.endswith("sub"):
        kw["output_names"] = {o for f in req["funcs"] for o in f["outs"]}
        mode = _base(mode)
    if mode == "seq":
        pl.map(inputs, parallel=False, **kw)
    elif mode == "thread":
        with ThreadPoolExecutor(4) as ex:
            pl.map(inputs, executor=ex, **kw)
    elif mode == "proc":
        with ProcessPoolExecutor(2) as ex:
            pl.map(inputs, executor=ex, **kw)
    elif mode == "procdefault":
        pl.map(inputs, parallel=True, **kw)
    elif mode in ("athread", "aproc"):
        async def go():
            with (ThreadPoolExecutor(4) if mode == "athread" else ProcessPoolExecutor(2)) as ex:
                r = pl.map_async(inputs, executor=ex, **kw)
                return await r.task

        asyncio.run(go())
    else:
        raise ValueError(mode)


def _stored_obs(names, folder):
    """[[name, what load_outputs returns for it]]: an array (masked elements '--'), a value, or None (absent)."""
    from pipefunc.map import load_outputs

    def one(v):
        return None if v is None else mapsym.arr_obs(v)

    try:
        vs = load_outputs(*names, run_folder=folder)
        if len(names) == 1:
            vs = [vs]
        return [[n, one(v)] for n, v in zip(names, vs)]
    except Exception:  # noqa: BLE001
        out = []
        for n in names:
            try:
                out.append([n, one(load_outputs(n, run_folder=folder))])
            except Exception as e:  # noqa: BLE001
                out.append([n, ["load-error", type(e).__name__]])
        return out


def _effectively_sequential(c):
    """prepare_run/_cannot_be_parallelized: parallel=True without an executor runs sequentially in this process when
    no function has a MapSpec and every generation is a single function (mirrored by Run_C13.eff_flags)."""
    if _base(c["mode"]) == "seq":
        return True
    return (c["mode"] == "procdefault" and all(f.get("spec") is None for f in c["req"]["funcs"])
            and all(len(g) == 1 for g in c["gens"]))


def _run_map_body(c, tmp, limit):
    """One map call and everything observed afterwards.  `limit`: in-process SIGALRM limit (sequential runs only)."""
    req = c["req"]
    sink = io.StringIO()
    log = FileLog(os.path.join(tmp, "calls.log"))
    folder = os.path.join(tmp, "run")
    try:
        pl = failsym.build_map(req, log, c["tgt"], c["exc"], local=bool(c.get("local")),
                               slow=c.get("slow") or (), delay=SLOW_DELAY_S)
    except Exception:  # noqa: BLE001
        return ["bad-case"]
    exc = None
    pre = c.get("prelude")
    kept = []
    if pre:
        # a history: an earlier SEQUENTIAL map of the same pipeline fails in another invocation, raising the SAME
        # exception instance.  resume=False: in another run folder (only the exception instance is shared).
        # resume=True: in THIS run folder, and the observed run resumes it (cleanup=False): it runs only the part of
        # the index space that is still missing; its call log is prefixed with the calls of the first run that
        # completed, so that (log, store) are those of ONE run failing at the observed invocation.
        shared = make_exc(c["exc"])
        failsym.retarget(pl, pre["tgt"], shared)
        with contextlib.suppress(Exception), contextlib.redirect_stdout(sink), contextlib.redirect_stderr(sink):
            pl.map(mapsym.map_inputs(req), run_folder=folder if pre.get("resume") else os.path.join(tmp, "run0"),
                   internal_shapes=mapsym.internal_arg(req), storage=req["storage"], parallel=False)
        kept = log.read()[:-1] if pre.get("resume") else []
        log.clear()
        failsym.retarget(pl, c["tgt"], shared)
    try:
        with contextlib.ExitStack() as stack:
            if limit:
                stack.enter_context(failsym.time_limit(limit))
            stack.enter_context(contextlib.redirect_stdout(sink))
            stack.enter_context(contextlib.redirect_stderr(sink))
            _map_call(pl, c, folder, cleanup=not (pre and pre.get("resume")))
    except failsym.HarnessTimeout:
        return Err("Timeout")
    except (Exception, asyncio.CancelledError) as e:  # noqa: BLE001  (CancelledError is a BaseException)
        exc = e
    lines = kept + log.read()
    if not _effectively_sequential(c):
        lines = sorted(lines)
    if exc is None:
        res, note = ["ok"], ["notes", 0]
    else:
        res = _exc_obs(exc, c["exc"])
        note = (failsym.notes_obs(exc, mapsym.canon, last=bool(pre)) if getattr(exc, "__notes__", None)
                else ["notes", 0])
    snap = _snap_obs(pl, c["ffn"], mapsym.canon, history=bool(pre))   # process pools: nothing is set in this process
    by_name = {f["name"]: f for f in req["funcs"]}
    store = _stored_obs([o for g in c["gens"] for n in g for o in by_name[n]["outs"]], folder)
    return [res, note, lines, snap, store]


def _forked(fn, timeout):
    """Run fn() in a forked child (own process group) under a HARD timeout: a hang of an executor, of a worker
    process or of an interpreter shutdown can never hang the check.  Returns fn()'s value, or Err("Timeout")."""
    r, w = os.pipe()
    pid = os.fork()
    if pid == 0:                                            # child
        try:
            os.close(r)
            with contextlib.suppress(OSError):
                os.setsid()
            try:
                data = pickle.dumps(("ok", fn()))
            except BaseException as e:  # noqa: BLE001
                data = pickle.dumps(("exc", f"{type(e).__name__}: {e}"[:300]))
            data = struct.pack("<Q", len(data)) + data
            while data:
                n = os.write(w, data)
                data = data[n:]
        finally:
            os._exit(0)
    os.close(w)
    deadline = time.monotonic() + timeout
    buf = b""
    need = None
    try:
        while need is None or len(buf) < need:
            left = deadline - time.monotonic()
            if left <= 0 or not select.select([r], [], [], left)[0]:
                return Err("Timeout")
            chunk = os.read(r, 1 << 16)
            if not chunk:
                break
            buf += chunk
            if need is None and len(buf) >= 8:
                need = 8 + struct.unpack("<Q", buf[:8])[0]
    finally:
        os.close(r)
        for sig_target in (os.killpg, os.kill):             # the child, its pool workers and manager processes
            with contextlib.suppress(OSError):
                sig_target(pid, signal.SIGKILL)
        with contextlib.suppress(OSError):
            os.waitpid(pid, 0)
    if need is None or len(buf) < need:
        return Err("ChildDied")
    tag, val = pickle.loads(buf[8:need])
    return val if tag == "ok" else Err("ChildFailed: " + val)


def _run_map(c):
    tmp = tempfile.mkdtemp(prefix="verif_c13_", dir=TMP_BASE)
    try:
        if _base(c["mode"]) == "seq":
            o = _run_map_body(c, tmp, TIMEOUT_S)             # plain Python in this thread: SIGALRM interrupts it
            if isinstance(o, Err):
                _kill_children()
            return o
        return _forked(lambda: _run_map_body(c, tmp, None), TIMEOUT_S)
    finally:
        shutil.rmtree(tmp, ignore_errors=True)


def run_impl(c):
    return _run_pipe(c) if c["kind"] == "pipe" else _run_map(c)


# ------------------------------------------------------------------ generators
def _kinds_for(tier, i):
    ks = list(KINDS)
    return ks if tier == "thorough" else [ks[i % len(ks)]]


def _gen_pipe(rng, tier, n_pipes):
    cases = []
    sink = io.StringIO()
    for _ in range(n_pipes):
        pd = pipegen.gen_pipeline(rng, nmax=5)
        outs = pipegen.outputs_of(pd)
        if tier == "quick" and len(outs) > 2:
            outs = rng.sample(outs, 2)
        plans = []
        for o in outs:
            try:
                with contextlib.redirect_stdout(sink):
                    pl = failsym.build_pipe(pd, ListLog())
                    names = [list(pl.root_args(o))]
                    others = [list(cmb) for cmb in sorted(pl.arg_combinations(o)) if list(cmb) != names[0]]
                    if others and rng.random() < 0.5:      # also a call that supplies intermediate values
                        names.append(rng.choice(others))
            except Exception:  # noqa: BLE001
                continue
            plans += [(o, ns) for ns in names]
        for o, ns in plans:
            log = ListLog()
            try:
                with contextlib.redirect_stdout(sink):
                    pl = failsym.build_pipe(pd, log)
                    kw = [[n, pipegen.value_for(rng, n)] for n in ns]
                    pl(o, **dict(kw))
            except Exception:  # noqa: BLE001
                continue
            calls = log.read()
            for i, tgt in enumerate(calls):
                for kind in _kinds_for(tier, i + len(cases)):
                    entry = rng.choice([0, 1, 1, 2])
                    full = entry != 0 and rng.random() < 0.4
                    cases.append({"kind": "pipe", "p": pd, "o": o, "kw": kw, "full": full, "entry": entry,
                                  "tgt": tgt, "ffn": tgt.split("(", 1)[0], "exc": kind, "ncalls": len(calls),
                                  "idx": i})
            if rng.random() < 0.15:      # a run in which nothing fails
                cases.append({"kind": "pipe", "p": pd, "o": o, "kw": kw, "full": rng.random() < 0.5, "entry": 1,
                              "tgt": "nothing()", "ffn": "nothing", "exc": "V", "ncalls": len(calls), "idx": -1})
    return cases


def _probe_request(req):
    """Generation lists (function names, real order) and the call log of the run without failure."""
    sink = io.StringIO()
    log = ListLog()
    with contextlib.redirect_stdout(sink):
        pl = failsym.build_map(req, log)
        gens = [[f.__name__ for f in g] for g in pl.topological_generations.function_lists]
        pl.map(mapsym.map_inputs(req), run_folder=None, internal_shapes=mapsym.internal_arg(req),
               storage="dict", parallel=False)
    calls = log.read()
    # output_names=<all outputs> executes Pipeline.subpipeline(inputs, outputs), which silently drops functions that
    # are not downstream of a supplied input (nullary functions, ...; another property's business): the "...sub"
    # entry points are only explored when the subpipeline run invokes the same functions
    sub_ok = False
    try:
        log2 = ListLog()
        with contextlib.redirect_stdout(sink):
            pl2 = failsym.build_map(req, log2)
            pl2.map(mapsym.map_inputs(req), run_folder=None, internal_shapes=mapsym.internal_arg(req),
                    storage="dict", parallel=False, output_names={o for f in req["funcs"] for o in f["outs"]})
        sub_ok = log2.read() == calls
    except Exception:  # noqa: BLE001
        sub_ok = False
    return gens, calls, sub_ok


def _gen_map(rng, tier, n_req, modes, max_calls, shared_share):
    cases = []
    tries = 0
    done = 0
    while done < n_req and tries < 50 * n_req:
        tries += 1
        req = mapgen.gen_request(rng, max_funcs=3, max_size=3 if rng.random() < 0.3 else 2)
        if mapgen.request_size(req) > 14:
            continue
        try:
            gens, calls, sub_ok = _probe_request(req)
        except Exception:  # noqa: BLE001
            continue
        if not (1 <= len(calls) <= max_calls):
            continue
        done += 1
        seen = set()
        for i, tgt in enumerate(calls):
            if tgt in seen:
                continue
            seen.add(tgt)
            for mode0 in modes:
                mode = rng.choice(mode0.split("|"))      # "a|b": one of the two per invocation (quick tier)
                if mode.endswith("sub") and not sub_ok:
                    continue
                for kind in _kinds_for(tier, i + len(cases)):
                    r2 = json.loads(json.dumps(req))
                    # shared_memory_dict starts one manager process per array (~0.5 s each here): small share
                    r = rng.random()
                    r2["storage"] = ("shared_memory_dict" if r < shared_share
                                     else ("dict" if r < 0.5 + shared_share / 2 else "file_array"))
                    if r2["storage"] == "shared_memory_dict" and mode not in ("seq", "seqsub", "procdefault"):
                        # a caller-owned executor may still be running tasks of the failing generation when map
                        # raises and persists the shared dict: what is on disk then depends on timing
                        r2["storage"] = "file_array"
                    # process pools: the user functions are non-importable closures for 3 cases out of 4 (what
                    # the worker sends back is pickled with the standard pickle); in-process: 1 out of 4
                    local = rng.random() < (0.25 if INPROC[mode] else 0.75)
                    cases.append({"kind": "map", "req": r2, "gens": gens, "mode": mode, "tgt": tgt,
                                  "ffn": tgt.split("(", 1)[0], "exc": kind, "ncalls": len(calls), "idx": i,
                                  "local": local})
        if rng.random() < 0.3:
            req["storage"] = rng.choice(["dict", "file_array"])
            m0 = rng.choice(modes).split("|")[0]
            cases.append({"kind": "map", "req": req, "gens": gens, "mode": m0 if sub_ok else _base(m0),
                          "tgt": "nothing()",
                          "ffn": "nothing", "exc": "V", "ncalls": len(calls), "idx": -1})
    return cases


def _gen_pool_smoke(rng, n_req):
    """Quick tier: a SMALL number of real process-pool runs -- explicit ProcessPoolExecutor and pipefunc's own
    pool (parallel=True), sync and one async -- for the first, a middle and the last invocation of a few requests,
    EVERY exception kind, user functions as non-importable closures."""
    cases = []
    done = tries = 0
    while done < n_req and tries < 60 * n_req:
        tries += 1
        req = mapgen.gen_request(rng, max_funcs=2, max_size=2)
        if mapgen.request_size(req) > 8:
            continue
        try:
            gens, calls, _ = _probe_request(req)
        except Exception:  # noqa: BLE001
            continue
        if not (2 <= len(calls) <= 8) or not any(f.get("spec") for f in req["funcs"]):
            continue
        done += 1
        picks = sorted({0, len(calls) // 2, len(calls) - 1})
        for j, i in enumerate(picks):
            for k, kind in enumerate(KINDS):
                mode = ["proc", "procdefault", "proc", "procdefault", "aproc"][(done + j + k) % 5]
                r2 = json.loads(json.dumps(req))
                r2["storage"] = "dict" if (j + k) % 2 else "file_array"
                cases.append({"kind": "map", "req": r2, "gens": gens, "mode": mode, "tgt": calls[i],
                              "ffn": calls[i].split("(", 1)[0], "exc": kind, "ncalls": len(calls), "idx": i,
                              "local": True})
    return cases


def _gen_slow_earlier(rng, n_req):
    """An EARLIER element of the failing mapped function is still running (it sleeps SLOW_DELAY_S, decided by the
    case) while a later element raises immediately: thread pool with 4 workers, sync map and map_async, middle and
    last failing index with the delay, first failing index without, every exception kind.  The model is unchanged
    (one task fails; it is the one reported, whatever completes when)."""
    cases = []
    done = tries = 0
    while done < n_req and tries < 200 * n_req:
        tries += 1
        req = mapgen.gen_request(rng, max_funcs=2, max_size=3)
        if mapgen.request_size(req) > 9:
            continue
        try:
            gens, calls, _ = _probe_request(req)
        except Exception:  # noqa: BLE001
            continue
        if len(calls) > 9:
            continue
        by_func = {}
        for ln in calls:
            by_func.setdefault(ln.split("(", 1)[0], []).append(ln)
        fn, mine = max(by_func.items(), key=lambda kv: len(kv[1]))
        if len(mine) < 3 or len(set(mine)) != len(mine):
            continue
        done += 1
        for k, kind in enumerate(KINDS):
            for mode in ("athread", "thread"):
                for j in sorted({0, len(mine) // 2, len(mine) - 1}):
                    r2 = json.loads(json.dumps(req))
                    r2["storage"] = "dict" if (j + k) % 2 else "file_array"
                    # the slow one: element 0 (k even) / the element just before the failing one (k odd)
                    slow = [] if j == 0 else [mine[0] if k % 2 == 0 else mine[j - 1]]
                    cases.append({"kind": "map", "req": r2, "gens": gens, "mode": mode, "tgt": mine[j], "ffn": fn,
                                  "exc": kind, "ncalls": len(calls), "idx": calls.index(mine[j]),
                                  "local": False, "slow": slow})
    return cases


def _gen_histories(rng, n_pipe, n_req):
    """Histories of TWO failing calls on the same pipeline object that raise ONE shared exception instance (a
    module-level sentinel error / a remembered error raised again); the second failure is the observed one and is
    judged against ITS OWN invocation.  pipeline(...), run, func; map sequential and thread pool.
    For maps additionally RESUMED runs: the first (sequential) run fails at element a >= 1 of a mapped function, the
    observed run resumes the same run folder (cleanup=False) -- it runs only the missing part of the index space,
    which does not start at 0 -- and fails at a later element b; storages dict / file_array (/ shared_memory_dict,
    sequential)."""
    cases = []
    sink = io.StringIO()
    done = tries = 0
    while done < n_pipe and tries < 100 * n_pipe:
        tries += 1
        pd = pipegen.gen_pipeline(rng, nmax=5)
        o = rng.choice(pipegen.outputs_of(pd))
        log = ListLog()
        try:
            with contextlib.redirect_stdout(sink):
                pl = failsym.build_pipe(pd, log)
                kw = [[n, pipegen.value_for(rng, n)] for n in pl.root_args(o)]
                pl(o, **dict(kw))
        except Exception:  # noqa: BLE001
            continue
        calls = log.read()
        if len(calls) < 2:
            continue
        done += 1
        for k, kind in enumerate(KINDS):
            a, b = rng.sample(range(len(calls)), 2)
            entry = [0, 1, 2, 1][k]
            cases.append({"kind": "pipe", "p": pd, "o": o, "kw": kw, "full": False, "entry": entry, "tgt": calls[b],
                          "ffn": calls[b].split("(", 1)[0], "exc": kind, "ncalls": len(calls), "idx": b,
                          "prelude": {"tgt": calls[a], "entry": k % 2}})
    done = tries = 0
    while done < n_req and tries < 300 * n_req:
        tries += 1
        req = mapgen.gen_request(rng, max_funcs=2, max_size=3)
        if mapgen.request_size(req) > 9:
            continue
        try:
            gens, calls, _ = _probe_request(req)
        except Exception:  # noqa: BLE001
            continue
        if len(calls) > 9 or len(set(calls)) != len(calls):
            continue
        by_func = {}
        for ln in calls:
            by_func.setdefault(ln.split("(", 1)[0], []).append(ln)
        fn, mine = max(by_func.items(), key=lambda kv: len(kv[1]))
        if len(mine) < 3:
            continue
        done += 1
        pairs = sorted({(1, 2), (1, len(mine) - 1), (max(1, len(mine) // 2), len(mine) - 1)} - {(1, 1)})
        pairs = [(a, b) for a, b in pairs if a < b]
        k = 0
        for a, b in pairs:
            for mode in ("seq", "thread"):
                storages = ["dict", "file_array"] + (["shared_memory_dict"] if mode == "seq" and (a, b) == pairs[0] else [])
                for st in storages:
                    kind = list(KINDS)[k % len(KINDS)]
                    k += 1
                    r2 = json.loads(json.dumps(req))
                    r2["storage"] = st
                    cases.append({"kind": "map", "req": r2, "gens": gens, "mode": mode, "tgt": mine[b], "ffn": fn,
                                  "exc": kind, "ncalls": len(calls), "idx": calls.index(mine[b]), "local": False,
                                  "prelude": {"tgt": mine[a], "resume": True}})
        # shared instance only (two independent runs), the earlier failure anywhere else in the run
        for k2, kind in enumerate(KINDS):
            b = rng.randrange(len(calls))
            a = rng.choice([i for i in range(len(calls)) if i != b])
            r2 = json.loads(json.dumps(req))
            r2["storage"] = "dict" if k2 % 2 else "file_array"
            cases.append({"kind": "map", "req": r2, "gens": gens, "mode": "seq" if k2 < 2 else "thread",
                          "tgt": calls[b], "ffn": calls[b].split("(", 1)[0], "exc": kind, "ncalls": len(calls),
                          "idx": b, "local": False, "prelude": {"tgt": calls[a], "resume": False}})
    return cases


def generate(rng, tier, mult):
    if tier == "quick":
        cases = _gen_pipe(rng, tier, 120 * mult)
        cases += _gen_map(rng, tier, 85 * mult, ["seq", "thread", "seqsub|threadsub"], max_calls=14,
                          shared_share=0.04)
        cases += _gen_pool_smoke(rng, 5 * mult)
        cases += _gen_slow_earlier(rng, 1 * mult)
        cases += _gen_histories(rng, 6 * mult, 3 * mult)
    else:
        cases = _gen_pipe(rng, tier, 220 * mult)
        cases += _gen_map(rng, tier, 38 * mult, ["seq", "thread", "proc", "procdefault", "athread", "aproc",
                                                  "seqsub", "threadsub"], max_calls=14, shared_share=0.03)
        cases += _gen_pool_smoke(rng, 10 * mult)
        cases += _gen_slow_earlier(rng, 4 * mult)
        cases += _gen_histories(rng, 60 * mult, 25 * mult)
    return cases


# ------------------------------------------------------------------ evidence helpers
def nontrivial_key(c):
    if c["ncalls"] < 2 or c["idx"] < 0:
        return None
    if c["kind"] == "pipe":
        return ("pipe", c["p"], c["o"], c["tgt"], c["exc"], c["entry"], c["full"], c.get("prelude"))
    return ("map", c["req"]["funcs"], c["req"]["inputs"], c["req"]["storage"], c["mode"], c["tgt"], c["exc"],
            bool(c.get("local")), bool(c.get("slow")), c.get("prelude"))


def distribution(c):
    d = {"kind": c["kind"], "exc": c["exc"], "failing": c["idx"] >= 0, "ncalls": min(c["ncalls"], 10)}
    if c["kind"] == "pipe":
        d["entry"] = f"{c['entry']}{'F' if c['full'] else ''}"
    else:
        d["mode"] = c["mode"]
        d["storage"] = c["req"]["storage"]
        d["ngens"] = len(c["gens"])
        d["first_call"] = c["idx"] == 0
        d["local_funcs"] = bool(c.get("local"))
        d["slow_earlier_element"] = bool(c.get("slow"))
    if c.get("prelude"):
        d["history"] = "resume" if c["prelude"].get("resume") else "shared-exception"
    return d


def finding_id(c, impl_obs, kind):
    """No known findings are left for C13 (the two sequential-path findings 'results of the failing generation are
    dropped' were repaired by the fix 'keep the results that completed before a function raised')."""
    return None


def shrink(c):
    return []
