"""C14 - Cache containers conform to their replacement-policy model."""
from __future__ import annotations

import atexit
import itertools
import math
import os
import shutil
import tempfile

from ..coqlit import Err

PROP = "C14"
RUN = "Run_C14"
THEOREMS = "Props/C14.v"
ANCHORS = [("pipefunc/cache.py", ["_CacheBase", "HybridCache", "LRUCache", "SimpleCache", "DiskCache", "_pickle_key"])]
RULE = ("per class (LRUCache, SimpleCache, HybridCache, DiskCache) and max_size 1..3: the COMPLETE tree of operation "
        "sequences over put/get/clear (+reopen for DiskCache) on a 3-key alphabet (4 keys for max_size 3) up to a depth "
        "(quick: LRU 4-5, Hybrid 3-4, Simple 4, Disk 2-3; thorough: LRU 5-6, Hybrid 4-5, Simple 5, Disk 3-4), with "
        "`k in cache` for every key and len(cache) observed after every operation, split into one case per prefix; "
        "shared=True variants of the same trees at smaller depth (one in-process manager); ALL schedules of two clients "
        "issuing 1-2 put/get/in/len/clear operations each on one cache (step scheduler: every call on the cache's "
        "dict/list/lock is one step), each schedule replayed on the small-step model SharedSteps and the outcome "
        "compared schedule by schedule (and judged against the linearizations of the abstract spec); TWO HANDLES on one "
        "shared cache (the second a pickle round trip of the first, as a worker process receives it; LRUCache, "
        "HybridCache, shared DiskCache front; max_size 2..3): one handle fills, ONE handle clears, the other and then "
        "both put/get/in/len past max_size, plus random handle-tagged sequences - judged by the abstract policy spec, "
        "which does not know about handles; RECENCY BEFORE FULL for "
        "max_size 3..5 (a get of a non-newest resident key while slots are free, then overflow: scripts, the complete "
        "tree after `put 0; put 1` over 4 keys to the depth containing put,put,get,put,put, shared variant, the "
        "DiskCache front with max_size 1 / front 3, random fill-with-reads sequences); DiskCache RE-OPENED "
        "ON A FILLED DIRECTORY for max_size 2..3: >= max_size puts of distinct keys, Reopen (same / smaller / larger / "
        "no max_size; with_lru_cache on and off; lru_cache_size below, at and above max_size), then fixed scripts (puts "
        "of NEW keys, `in` for every key and len after each, gets of the oldest keys), the COMPLETE tree of the next "
        "2 (thorough 3) operations, and random continuations with further reopens - spec_ok demands the outputs of the "
        "creation-ordered bounded file list (len <= max_size after the put, oldest file gone); random sequences of <= 40 explicit "
        "put/get/in/len/clear/reopen operations incl. zero, subnormal and huge float durations; hand-written witnesses "
        "of the repaired defects.  A tree case counts as ONE case although it covers hundreds to thousands of "
        "sequences; non-trivial = every tree and every two-client case, and every sequence that puts more distinct keys "
        "than max_size or re-puts a key; distinct by (configuration, prefix/ops)")
ASSUMPTIONS = [
    "keys are small ints 0..3, values small ints 0..40 (never None: `get` cannot distinguish a stored None from a miss)",
    "HybridCache durations and weights are Python floats: every finite binary64 value is covered bit-exactly by Coq's "
    "PrimFloat in the correspondence; inv/no_raise/refines are proved for EVERY arithmetic; the policy theorem "
    "(victim has a minimal score) additionally assumes that `<` is irreflexive and transitive, which is true of IEEE "
    "`<` but is not proved for PrimFloat here",
    "among equal lowest scores the first entry in insertion order is the designated victim (Python's min)",
    "DiskCache: file ctimes are pairwise distinct and increase with every write (the harness waits for the file-system "
    "clock before every put and checks it afterwards; timestamps themselves are never compared); under this "
    "assumption the order in which glob() lists the files is irrelevant (proved: evict_loop_ok) and the model lists "
    "them in order of writing; md5(pickle(key)) is injective on the keys used; ONE process owns the directory; "
    "pickle/cloudpickle round trips of small ints are the identity",
    "DiskCache: max_size bounds the number of FILES (len); a key whose file was evicted stays visible through the "
    "in-memory LRU front until it leaves the front (len(c) can be smaller than the number of keys reported present) - "
    "this is the documented two-level behaviour and is part of the abstract specification, not a finding; a "
    "DiskCache reopened with a smaller max_size holds more than max_size files until the next put",
    "several handles: a second handle on a shared cache is obtained by pickle.loads(pickle.dumps(cache)) inside the "
    "harness process (it shares the manager objects and the cache directory exactly like the copy a child process "
    "unpickles, and - unlike Process(args=...) - takes its own reference on them); real child processes are not started",
    "shared=True is exercised sequentially in-process against the same model as shared=False (all manager objects "
    "come from one multiprocessing.Manager started by the harness; a used shared LRU/Hybrid cache is reset by "
    "emptying its manager containers directly)",
    "concurrency (shared=True): PROVED for any number of clients on the small-step model Model/SharedSteps.v (every "
    "call on the managed dict/list and every lock acquire/release is one atomic step): lock invariant, "
    "linearizability of put/get/clear to the sequential model, no exception, len <= max_size at every moment, and "
    "exactly which dicts the lock-free `in`/`len` can see (a sequential state's dict with some keys deleted, or the "
    "next state's dict - e.g. len may be max_size-1 in the middle of another client's evicting put).  TIED to the "
    "code by replaying EVERY schedule of two clients (1-2 operations each, incl. `in`/`len`/clear) found by the "
    "harness' step scheduler on that model, schedule by schedule.  NOT modelled: the manager process itself (proxy "
    "calls are assumed atomic and the lock mutually exclusive), real OS timing, crashes of a client inside a "
    "critical section, more than two clients in the correspondence (the theorems cover N), several processes "
    "sharing one DiskCache directory",
    "max_size >= 1 (LRUCache rejects 0 itself; HybridCache(max_size=0).put raises ValueError - outside the property)",
]
TRUSTED = ["Model/Caches.v mirrors pipefunc/cache.py by hand; tie = per-run differential execution on complete "
           "operation trees", "Coq PrimFloat = hardware binary64 = Python float (vm_compute)",
           "the harness' step scheduler (two threads, semaphores) enumerates all schedules of its yield points; its "
           "wrappers around dict/list define what one proxy call is (manager proxies are not used in these cases)"]

NKEYS_MAX = 4


# ------------------------------------------------------------------ literals
def _dy(x: float) -> str:
    num, den = float(x).as_integer_ratio()
    e = -(den.bit_length() - 1)
    while num and num % 2 == 0 and abs(num) >= 2 ** 53:
        num //= 2
        e += 1
    assert abs(num) < 2 ** 62
    return f"{num} {e if e >= 0 else '(%d)' % e}" if num >= 0 else f"({num}) {e if e >= 0 else '(%d)' % e}"


def _optnat(m) -> str:
    return "None" if m is None else f"(Some {int(m)})"


def _b(x) -> str:
    return "true" if x else "false"


def _cfg(c) -> str:
    k = c["cls"]
    if k == "lru":
        return f"(KLru {c['max']} {_b(c['shared'])})"
    if k == "simple":
        return "KSimple"
    if k == "hyb":
        return f"(KHyb {c['max']} (Dy {_dy(c['aw'])}) (Dy {_dy(c['dw'])}) {_b(c['shared'])})"
    if k == "disk":
        return f"(KDisk {_optnat(c['max'])} {_b(c['wl'])} {c['ls']} {_b(c['shared'])})"
    raise ValueError(k)


def _op(o) -> str:
    t = o[0]
    if t == "P":
        return f"P {o[1]} {o[2]} {_dy(o[3])}"
    if t in "GM":
        return f"{t} {o[1]}"
    if t in "LX":
        return t
    if t == "R":
        return f"R {_optnat(o[1])}"
    raise ValueError(t)


def _ops(ops) -> str:
    return "[" + "; ".join(_op(o) for o in ops) + "]"


def emit_case(c) -> str:
    if c["kind"] == "seq":
        return f"(CSeq {_cfg(c['cfg'])} {_ops(c['ops'])})"
    if c["kind"] == "conc":
        return f"(CConc {_cfg(c['cfg'])} {c['keys']} {_ops(c['setup'])} {_ops(c['a'])} {_ops(c['b'])})"
    return (f"(CTree {_cfg(c['cfg'])} {c['keys']} [{'; '.join('Dy ' + _dy(d) for d in c['durs'])}] "
            f"[{'; '.join(_optnat(m) for m in c['reopens'])}] {_ops(c['prefix'])} {c['depth']})")


# ------------------------------------------------------------------ implementation driver
_MANAGER = None


def _shared_manager():
    """One manager process for all shared caches of this run (pipefunc.cache.Manager is pointed at it)."""
    global _MANAGER
    if _MANAGER is None:
        import multiprocessing

        import pipefunc.cache as pc

        _MANAGER = multiprocessing.Manager()
        pc.Manager = lambda: _MANAGER
        atexit.register(_MANAGER.shutdown)
    return _MANAGER


_ERR = {"KeyError": "k", "ZeroDivisionError": "z", "FileNotFoundError": "n", "ValueError": "v", "IndexError": "i"}


def _enc(v) -> str:
    if v is None:
        return "-"
    if v is True:
        return "t"
    if v is False:
        return "f"
    if isinstance(v, int) and 0 <= v <= 40:
        return chr(48 + v)
    return "?"


class _Box:
    """A cache under test (+ its directory and logical-clock bookkeeping for DiskCache)."""

    def __init__(self, cfg, root):
        self.cfg, self.root = cfg, root
        self.dir = None
        self.last_ctime = 0
        self.cache = None

    def fresh(self):
        import pipefunc.cache as pc

        cfg = self.cfg
        if cfg.get("shared"):
            _shared_manager()
            if self.cache is not None and cfg["cls"] in ("lru", "hyb"):
                # creating manager objects costs ~20 ms: a used shared cache is brought back to the state of a new
                # one by emptying its manager containers directly (not through the cache's own methods)
                c = self.cache
                c._cache_dict.clear()
                if cfg["cls"] == "lru":
                    del c._cache_queue[:]
                else:
                    c._access_counts.clear()
                    c._computation_durations.clear()
                return
        k = cfg["cls"]
        if k == "lru":
            self.cache = pc.LRUCache(max_size=cfg["max"], shared=cfg["shared"])
        elif k == "simple":
            self.cache = pc.SimpleCache()
        elif k == "hyb":
            self.cache = pc.HybridCache(max_size=cfg["max"], access_weight=cfg["aw"], duration_weight=cfg["dw"],
                                        shared=cfg["shared"])
        else:
            if self.dir is None:
                self.dir = os.path.join(self.root, "d")
                os.mkdir(self.dir)
            else:
                for f in os.scandir(self.dir):
                    os.unlink(f.path)
            self._open(cfg["max"])

    def _open(self, m):
        import pipefunc.cache as pc

        cfg = self.cfg
        self.cache = pc.DiskCache(self.dir, max_size=m, with_lru_cache=cfg["wl"], lru_cache_size=cfg["ls"],
                                  lru_shared=cfg["shared"])

    def _tick(self):
        """Wait until a file written now gets a ctime later than every file written so far."""
        probe = os.path.join(self.root, "clock")
        for _ in range(100000):
            with open(probe, "wb") as f:
                f.write(b"x")
            if os.stat(probe).st_ctime_ns > self.last_ctime:
                return
        raise RuntimeError("file-system clock does not advance")

    def apply(self, o) -> str:
        c, t = self.cache, o[0]
        try:
            if t == "P":
                if self.cfg["cls"] == "hyb":
                    r = c.put(o[1], o[2], o[3])
                elif self.cfg["cls"] == "disk":
                    self._tick()
                    try:
                        r = c.put(o[1], o[2])
                    finally:
                        p = c._get_file_path(o[1])
                        if p.exists():
                            ct = p.stat().st_ctime_ns
                            if ct <= self.last_ctime:
                                raise RuntimeError("ctime of a rewritten file did not advance")
                            self.last_ctime = ct
                else:
                    r = c.put(o[1], o[2])
            elif t == "G":
                r = c.get(o[1])
            elif t == "M":
                r = o[1] in c
                if not isinstance(r, bool):
                    return "?"
            elif t == "L":
                r = len(c)
            elif t == "X":
                r = c.clear()
            elif t == "R":
                if self.cfg["cls"] != "disk":
                    return "x"
                self._open(o[1])
                r = None
            else:
                raise ValueError(t)
        except Exception as e:  # noqa: BLE001
            return _ERR.get(type(e).__name__, "x")
        return _enc(r)

    def probe(self, keys) -> str:
        c = self.cache
        try:
            bits = 0
            for k in range(keys):
                r = k in c
                if not isinstance(r, bool):
                    return "x"
                if r:
                    bits += 1 << k
            n = len(c)
            if not (isinstance(n, int) and 0 <= n <= 5):
                return "x"
            return chr(40 + bits + 16 * n)
        except Exception:  # noqa: BLE001
            return "x"

    def step_probed(self, keys, o) -> str:
        return self.apply(o) + self.probe(keys)


# ---- two clients on one cache: deterministic step scheduler (every dict/list/lock call is one step)
class _Sched:
    def __init__(self, choices):
        import threading

        self.th = threading
        self.choices, self.trace = list(choices), []
        self.ctl = threading.Semaphore(0)
        self.go = [threading.Semaphore(0), threading.Semaphore(0)]
        self.done, self.waiting, self.tid = [False, False], [None, None], {}

    def me(self):
        return self.tid.get(self.th.get_ident())

    def pause(self):
        i = self.me()
        if i is None:           # main thread (setup, final probe): not scheduled
            return
        self.ctl.release()
        self.go[i].acquire()

    def run(self, fns):
        def worker(i):
            self.tid[self.th.get_ident()] = i
            self.go[i].acquire()
            try:
                fns[i]()
            finally:
                self.done[i] = True
                self.ctl.release()

        ts = [self.th.Thread(target=worker, args=(i,), daemon=True) for i in (0, 1)]
        for x in ts:
            x.start()
        step = 0
        while not all(self.done):
            enabled = [i for i in (0, 1) if not self.done[i]
                       and (self.waiting[i] is None or self.waiting[i].owner is None)]
            if not enabled:
                raise RuntimeError("deadlock between the two clients")
            pick = self.choices[step] if step < len(self.choices) and self.choices[step] in enabled else enabled[0]
            self.trace.append((pick, tuple(enabled)))
            step += 1
            self.go[pick].release()
            if not self.ctl.acquire(timeout=30):
                raise RuntimeError("scheduler lost a client")
        for x in ts:
            x.join(30)


class _SLock:
    """Stands for manager.Lock(): acquiring is a scheduling step; a client waiting for it is not runnable."""

    def __init__(self, sched):
        self.sched, self.owner = sched, None

    def __enter__(self):
        i = self.sched.me()
        if i is None:
            return self
        self.sched.waiting[i] = self
        self.sched.pause()
        self.sched.waiting[i] = None
        assert self.owner is None
        self.owner = i
        return self

    def __exit__(self, *a):
        if self.sched.me() is not None:
            self.owner = None
        return False


def _stepped(base, names):
    """Subclass of dict/list standing for a manager proxy: each listed method is one atomic scheduling step."""
    def mk(name):
        orig = getattr(base, name)

        def f(self, *a, **k):
            self._sched.pause()
            r = orig(self, *a, **k)
            return list(r) if name in ("keys", "values", "items", "__iter__") else r
        return f

    return type("Stepped" + base.__name__, (base,), {n: mk(n) for n in names})


_SDict = _stepped(dict, ["__contains__", "__getitem__", "__setitem__", "__delitem__", "__len__", "pop", "keys",
                         "values", "items", "clear", "get"])
_SDict.__iter__ = lambda self: (self._sched.pause(), iter(list(dict.keys(self))))[1]
_SList = _stepped(list, ["__len__", "append", "pop", "remove", "__delitem__", "__getitem__", "__contains__"])


def _conc_once(c, choices):
    cfg, keys = c["cfg"], c["keys"]
    box = _Box(cfg, None)
    box.fresh()
    for o in c["setup"]:
        box.apply(o)
    sched = _Sched(choices)
    cache = box.cache
    for name in ("_cache_dict", "_access_counts", "_computation_durations"):
        if hasattr(cache, name):
            d = _SDict(getattr(cache, name))
            d._sched = sched
            setattr(cache, name, d)
    if hasattr(cache, "_cache_queue"):
        q = _SList(cache._cache_queue)
        q._sched = sched
        cache._cache_queue = q
    cache._cache_lock = _SLock(sched)
    outs = [[], []]

    def client(i, ops):
        return lambda: [outs[i].append(box.apply(o)) for o in ops]

    sched.run([client(0, c["a"]), client(1, c["b"])])
    return "".join(outs[0]) + "|" + "".join(outs[1]) + "|" + box.probe(keys), sched.trace


def run_conc(c, limit=4000):
    """All schedules (stateless depth-first search over the scheduler's choice points)."""
    outcomes, stack, n = set(), [[]], 0
    while stack:
        prefix = stack.pop()
        out, trace = _conc_once(c, prefix)
        # the schedule (client picked at every scheduling point) and what it led to: compared schedule by
        # schedule with the small-step model Model/SharedSteps.v
        outcomes.add("".join(str(x[0]) for x in trace) + ":" + out)
        n += 1
        if n > limit:
            raise RuntimeError("too many schedules")
        for i in range(len(prefix), len(trace)):
            chosen, enabled = trace[i]
            for alt in enabled:
                if alt != chosen:
                    stack.append([x[0] for x in trace[:i]] + [alt])
    c["_schedules"] = n
    return sorted(outcomes)


def alphabet(keys, durs, reopens, pos):
    return ([["P", k, pos, d] for k in range(keys) for d in durs] + [["G", k] for k in range(keys)] + [["X"]]
            + [["R", m] for m in reopens])


def run_impl(c):
    cfg = c["cfg"]
    root = tempfile.mkdtemp(prefix="c14-") if cfg["cls"] == "disk" else None
    try:
        box = _Box(cfg, root)
        try:
            box.fresh()
        except Exception as e:  # noqa: BLE001  (the constructor raised)
            return Err(e)
        if c["kind"] == "seq" and c.get("handles"):
            # several handles on ONE shared cache: handle 0 is the object created above, every other handle is a
            # pickle round trip of it (what a worker process receives); operation i is issued through handle
            # c["handles"][i].  All handles must behave as one cache: the model does not know about handles.
            import pickle

            hs = [box.cache] + [pickle.loads(pickle.dumps(box.cache)) for _ in range(max(c["handles"]))]
            out = []
            for o, h in zip(c["ops"], c["handles"]):
                box.cache = hs[h]
                out.append(box.apply(o))
            return "".join(out)
        if c["kind"] == "seq":
            return "".join(box.apply(o) for o in c["ops"])
        if c["kind"] == "conc":
            return run_conc(c)
        keys, durs, reopens = c["keys"], c["durs"], c["reopens"]
        out = [box.step_probed(keys, o) for o in c["prefix"]]

        def rec(path, d):
            if d == 0:
                return
            for o in alphabet(keys, durs, reopens, len(path)):
                box.fresh()
                for q in path:
                    box.step_probed(keys, q)
                out.append(box.step_probed(keys, o))
                rec(path + [o], d - 1)

        rec(list(c["prefix"]), c["depth"])
        return "".join(out)
    finally:
        if root is not None:
            shutil.rmtree(root, ignore_errors=True)


# ------------------------------------------------------------------ generators
def _lru(mx, shared=False):
    return {"cls": "lru", "max": mx, "shared": shared}


def _hyb(mx, aw=0.5, dw=0.5, shared=False):
    return {"cls": "hyb", "max": mx, "aw": aw, "dw": dw, "shared": shared}


def _disk(mx, wl=True, ls=2, shared=False):
    return {"cls": "disk", "max": mx, "wl": wl, "ls": ls, "shared": shared}


SIMPLE = {"cls": "simple", "shared": False}


def tree_cases(cfg, keys, durs, reopens, depth, limit=3500):
    """The complete tree of depth `depth`, split into one case per prefix so that a case has <= limit nodes."""
    b = len(alphabet(keys, durs, reopens, 0))

    def nodes(d):
        return sum(b ** i for i in range(1, d + 1))

    p = 0
    while nodes(depth - p) > limit and p < depth:
        p += 1
    cases = []

    def rec(prefix):
        if len(prefix) == p:
            cases.append({"kind": "tree", "cfg": cfg, "keys": keys, "durs": list(durs), "reopens": list(reopens),
                          "prefix": prefix, "depth": depth - p})
            return
        for o in alphabet(keys, durs, reopens, len(prefix)):
            rec(prefix + [o])

    rec([])
    return cases


DURS_RANDOM = [0.0, 0.0, 1.0, 1.0, 0.5, 2.5, 3.0, 0.1, 1e-9, 1e-320, 1.7e308, 123456.789]
WEIGHTS = [(0.5, 0.5), (0.5, 0.5), (1.0, 0.0), (0.0, 1.0), (0.3, 0.7), (2.0, 1.0)]


def random_seq(rng, cfg, n, keys):
    ops = []
    for i in range(n):
        r = rng.random()
        k = rng.randrange(keys)
        if r < 0.4:
            ops.append(["P", k, rng.randrange(41), rng.choice(DURS_RANDOM) if cfg["cls"] == "hyb" else 0.0])
        elif r < 0.62:
            ops.append(["G", k])
        elif r < 0.82:
            ops.append(["M", k])
        elif r < 0.92:
            ops.append(["L"])
        elif r < 0.96 or cfg["cls"] != "disk":
            ops.append(["X"] if rng.random() < 0.4 else ["M", k])
        else:
            ops.append(["R", rng.choice([None, 0, 1, 2, 3])])
    return {"kind": "seq", "cfg": cfg, "ops": ops}


def reopen_cases(rng, quick):
    """DiskCache on a directory that already holds files this instance has never seen: fill the directory with
    >= max_size distinct keys, re-open it (same / smaller / larger / no max_size; with and without the LRU front,
    lru_cache_size below, at and above max_size), then
      (a) fixed scripts: put NEW keys, `in` for every key and len after each put, get of the oldest keys;
      (b) the COMPLETE tree of put/get/clear/reopen sequences of depth 2 (thorough: 3) from that point;
      (c) random continuations."""
    cases = []

    def probes(keys):
        return [["M", k] for k in range(keys)] + [["L"]]

    for mx in (2, 3):
        keys = mx + 2
        variants = [(True, mx), (True, mx + 1), (True, 1), (False, 1)] + ([(True, 2)] if mx == 3 else [])
        for wl, ls in variants:
            for fill in (mx, mx + 1):
                for m2 in (mx, mx - 1, mx + 1, None):
                    pre = [["P", k % keys, k, 0.0] for k in range(fill)]
                    new1, new2 = fill % keys, (fill + 1) % keys
                    ops = (pre + [["L"], ["R", m2], ["L"], ["P", new1, 20, 0.0]] + probes(keys)
                           + [["G", 0], ["P", new2, 21, 0.0]] + probes(keys) + [["G", 1], ["G", new1], ["L"]])
                    cases.append({"kind": "seq", "cfg": _disk(mx, wl, ls), "ops": ops})
            # (b) everything that can happen in the next steps after fill + reopen
            for m2 in ((mx, mx - 1) if quick else (mx, mx - 1, mx + 1, None)):
                if quick and (wl, ls) not in ((True, mx), (False, 1)):
                    continue
                prefix = [["P", k, k, 0.0] for k in range(mx)] + [["R", m2]]
                cases.append({"kind": "tree", "cfg": _disk(mx, wl, ls), "keys": mx + 1, "durs": [0.0],
                              "reopens": [mx], "prefix": prefix, "depth": 2 if quick else 3})
    # (c) random: fill, reopen, then a random continuation with further reopens
    for _ in range(12 if quick else 150):
        mx = rng.choice([2, 2, 3])
        keys = mx + 2
        wl = rng.random() < 0.8
        ls = rng.choice([1, mx, mx, mx + 1])
        order = rng.sample(range(keys), keys)
        ops = [["P", order[i % keys], i, 0.0] for i in range(rng.randint(mx, mx + 2))]
        for _ in range(rng.randint(1, 3)):
            ops.append(["R", rng.choice([mx, mx, mx - 1, mx + 1, None])])
            for _ in range(rng.randint(1, 5)):
                r = rng.random()
                k = rng.randrange(keys)
                if r < 0.5:
                    ops += [["P", k, rng.randrange(41), 0.0]] + probes(keys)
                elif r < 0.8:
                    ops.append(["G", k])
                elif r < 0.95:
                    ops += probes(keys)
                else:
                    ops.append(["X"])
        cases.append({"kind": "seq", "cfg": _disk(mx, wl, ls), "ops": ops[:60]})
    return cases


def recency_cases(rng, quick):
    """A `get` of a non-newest resident key while the cache still has free slots must count as a use (needs
    max_size >= 3): put a, put b, get a, put c, put d must evict b.  Fixed scripts, complete trees from a
    `put 0; put 1` (or `put 0`) prefix over a 4-key alphabet, the DiskCache in-memory front, random sequences."""
    cases = []

    def probes(keys):
        return [["M", k] for k in range(keys)] + [["L"]]

    P = lambda k, v: ["P", k, v, 0.0]
    for sh in (False, True):
        for mx in (3, 4):
            keys = mx + 2
            fill = [P(k, k + 1) for k in range(mx - 1)]                       # one free slot left
            for g in range(mx - 1):                                           # read each resident key in turn
                ops = (fill + [["G", g]] + [P(mx - 1, 10)] + probes(keys) + [P(mx, 11)] + probes(keys)
                       + [P(mx + 1, 12)] + probes(keys) + [["G", g], ["G", (g + 1) % (mx - 1)]])
                cases.append({"kind": "seq", "cfg": _lru(mx, sh), "ops": ops})
            # several reads before the cache is full
            ops = [P(0, 1), P(1, 2), ["G", 0], P(2, 3), ["G", 1], ["G", 0]] + [P(k, 20 + k) for k in range(3, mx + 2)]
            cases.append({"kind": "seq", "cfg": _lru(mx, sh), "ops": ops + probes(keys)})
    # complete trees: everything that can follow `put 0` (depth 4) / `put 0; put 1` (depth 3), 4 keys, max_size 3
    cases.append({"kind": "tree", "cfg": _lru(3), "keys": 4, "durs": [0.0], "reopens": [],
                  "prefix": [P(0, 0), P(1, 1)], "depth": 3 if quick else 4})
    if not quick:
        cases.append({"kind": "tree", "cfg": _lru(4), "keys": 4, "durs": [0.0], "reopens": [],
                      "prefix": [P(0, 0), P(1, 1), P(2, 2)], "depth": 3})
    cases.append({"kind": "tree", "cfg": _lru(3, True), "keys": 4, "durs": [0.0], "reopens": [],
                  "prefix": [P(0, 0), P(1, 1), ["G", 0]], "depth": 2 if quick else 3})
    # DiskCache: the front is an LRUCache; its order shows once the file of the key is gone (max_size 1, front 3)
    cases.append({"kind": "tree", "cfg": _disk(1, True, 3), "keys": 4, "durs": [0.0], "reopens": [],
                  "prefix": [P(0, 0), P(1, 1), ["G", 0]], "depth": 2 if quick else 3})
    cases.append({"kind": "seq", "cfg": _disk(1, True, 3),
                  "ops": [P(0, 1), P(1, 2), ["G", 0], P(2, 3), P(3, 4)] + probes(4) + [["G", 0], ["G", 1]]})
    # random: reads of resident keys interleaved with the puts that fill the cache, then overflow
    for _ in range(15 if quick else 200):
        mx = rng.choice([3, 3, 4, 5])
        keys = mx + 2
        sh = rng.random() < 0.1
        order = rng.sample(range(keys), keys)
        ops, resident = [], []
        for i, k in enumerate(order):
            ops.append(P(k, i + 1))
            resident.append(k)
            for _ in range(rng.randint(0, 2)):
                ops.append(["G", rng.choice(resident[-mx:])])
        ops += probes(keys)
        for _ in range(rng.randint(0, 6)):
            ops.append(P(rng.randrange(keys), rng.randrange(41)) if rng.random() < 0.5 else ["G", rng.randrange(keys)])
        ops += probes(keys)
        cfg = _lru(mx, sh) if rng.random() < 0.8 else _disk(rng.choice([1, 2]), True, mx, sh)
        cases.append({"kind": "seq", "cfg": cfg, "ops": ops})
    return cases


def handle_cases(rng, quick):
    """shared=True with TWO handles on the same cache (the second obtained by pickling, as a worker process gets it):
    one handle fills the cache, ONE handle issues clear(), then the other handle - and then both - put / get / in /
    len past max_size.  Also the same without clear and random tagged sequences.  LRUCache, HybridCache and the
    shared LRU front of DiskCache; max_size 2..3."""
    cases = []

    def both(ops):            # `in` for every key and len, asked through both handles
        return [(o, h) for h in (0, 1) for o in ops]

    def mk(cfg, tagged):
        return {"kind": "seq", "cfg": cfg, "ops": [o for o, _ in tagged], "handles": [h for _, h in tagged]}

    cfgs = []
    for mx in (2, 3):
        cfgs += [_lru(mx, True), _hyb(mx, shared=True)]
    cfgs += [_disk(1, True, 2, True), _disk(2, True, 3, True)]
    for cfg in cfgs:
        hyb = cfg["cls"] == "hyb"
        mx = cfg["ls"] if cfg["cls"] == "disk" else cfg["max"]
        keys = mx + 3
        probes = [["M", k] for k in range(keys)] + [["L"]]
        P = lambda k, v: ["P", k, v, float(1 + (k + v) % 3) if hyb else 0.0]  # noqa: E731
        for clearer in (0, 1):
            other = 1 - clearer
            for filler in ((0,) if quick and clearer else (0, 1)):
                tg = [(P(k, k + 1), filler) for k in range(mx)] + [(["G", 0], other)]
                tg += [(["X"], clearer)] + both(probes)
                # the OTHER handle refills past max_size, then both handles work on the cache
                for j, k in enumerate(range(mx, mx + 3)):
                    tg += [(P(k % keys, 10 + j), other)] + both([["L"]])
                tg += both(probes)
                tg += [(P(0, 20), clearer), (P(1, 21), other), (["G", 0], other), (P(2, 22), clearer)] + both(probes)
                tg += [(["G", k], (k + clearer) % 2) for k in range(keys)]
                cases.append(mk(cfg, tg))
        # two handles, no clear: fill through one, overflow through the other
        tg = [(P(k, k + 1), 0) for k in range(mx)] + [(["G", 0], 1)] + [(P(mx, 9), 1)] + both(probes)
        tg += [(P(mx + 1, 10), 0)] + both(probes)
        cases.append(mk(cfg, tg))
    for _ in range(10 if quick else 150):
        cfg = rng.choice(cfgs)
        hyb = cfg["cls"] == "hyb"
        mx = cfg["ls"] if cfg["cls"] == "disk" else cfg["max"]
        keys = mx + 2
        tg = []
        for i in range(rng.randint(10, 30)):
            h, r, k = rng.randrange(2), rng.random(), rng.randrange(keys)
            if r < 0.45:
                tg.append((["P", k, rng.randrange(41), rng.choice([0.0, 1.0, 2.5]) if hyb else 0.0], h))
            elif r < 0.65:
                tg.append((["G", k], h))
            elif r < 0.8:
                tg.append((["M", k], h))
            elif r < 0.9:
                tg.append((["L"], h))
            else:
                tg.append((["X"], h))
        tg += both([["M", k] for k in range(keys)] + [["L"]])
        cases.append(mk(cfg, tg))
    return cases


def witnesses():
    P = lambda k, v, d=0.0: ["P", k, v, d]
    probe3 = [["M", 0], ["M", 1], ["M", 2], ["L"]]
    w = []
    for sh in (False, True):
        # re-put of a resident key (was: duplicate queue entry -> KeyError two puts later)
        w.append({"kind": "seq", "cfg": _lru(2, sh), "ops": [P(0, 1), P(0, 2), P(1, 3), P(2, 4)] + probe3 + [["G", 0], ["G", 1], ["G", 2]]})
        # max_size 1, re-put (was: the key evicts itself)
        w.append({"kind": "seq", "cfg": _lru(1, sh), "ops": [P(0, 1), P(0, 2)] + probe3 + [["G", 0]]})
        # all durations zero (was: ZeroDivisionError)
        w.append({"kind": "seq", "cfg": _hyb(1, shared=sh), "ops": [P(0, 1, 0.0), P(1, 2, 0.0)] + probe3 + [["G", 1]]})
        w.append({"kind": "seq", "cfg": _hyb(2, shared=sh), "ops": [P(0, 1, 0.0), P(1, 2, 0.0), ["G", 0], P(2, 3, 0.0)] + probe3})
        # directory with more files than the new max_size (was: FileNotFoundError in _evict_if_needed)
        w.append({"kind": "seq", "cfg": _disk(3, True, 2, sh),
                  "ops": [P(0, 1), P(1, 2), P(2, 3), ["R", 1], ["L"], P(3, 4)] + probe3 + [["M", 3], ["G", 3], ["G", 2]]})
        w.append({"kind": "seq", "cfg": _disk(None, False, 1, sh),
                  "ops": [P(0, 1), P(1, 2), P(2, 3), P(1, 5), ["R", 1], P(3, 4)] + probe3 + [["M", 3], ["G", 1]]})
    w.append({"kind": "seq", "cfg": _lru(0), "ops": [P(0, 1)]})          # constructor raises ValueError
    w.append({"kind": "seq", "cfg": _hyb(0), "ops": [P(0, 1, 1.0)]})      # outside the property: put raises ValueError
    w.append({"kind": "seq", "cfg": _disk(0, True, 1), "ops": [P(0, 1), ["L"], ["M", 0], ["G", 0]]})
    return w


def conc_cases(rng, quick):
    cases = []
    for cfg in (_lru(1), _lru(2), _hyb(1), _hyb(2)):
        hyb = cfg["cls"] == "hyb"

        def put(k, v, d=1.0):
            return ["P", k, v, d if hyb else 0.0]

        setups = [[], [put(0, 1)], [put(0, 1), put(1, 2, 0.0)], [put(0, 1), ["G", 0], put(1, 2)]]
        singles_a = [[put(k, 10 + k, 0.0)] for k in range(3)] + [[["G", k]] for k in range(2)] + [[["X"]]]
        # the lock-free calls `in` / `len` of client b may see the managed dict in the middle of client a's operation
        singles_b = ([[put(k, 20 + k, 2.0)] for k in range(3)] + [[["G", k]] for k in range(2)]
                     + [[["L"]], [["M", 0]], [["M", 2]], [["L"], ["M", 1]], [["X"]]])
        one = [{"kind": "conc", "cfg": cfg, "keys": 3, "setup": s, "a": a, "b": b}
               for s in setups for a in singles_a for b in singles_b]
        doubles = [[put(2, 11), ["G", 0]], [["G", 0], put(2, 12)], [["G", 1], ["G", 0]], [put(0, 13), put(2, 14)],
                   [["G", 0], ["G", 0]]]
        two = [{"kind": "conc", "cfg": cfg, "keys": 3, "setup": s, "a": a,
                "b": [[o[0], o[1], o[2] + 10, o[3]] if o[0] == "P" else o for o in b]}
               for s in setups[1:] for a in doubles for b in doubles]
        # every schedule of a case costs one pair of threads: the quick tier samples the pairs
        cases += rng.sample(one, 8 if quick else 75)
        cases += rng.sample(two, 1 if quick else 10)
    return cases


def generate(rng, tier, mult):
    quick = tier == "quick"
    cases = witnesses()
    # --- non-shared complete trees: (configuration, keys, durations, reopen sizes, depth quick, depth thorough)
    plan = [
        (_lru(1), 3, [0.0], [], 4, 6), (_lru(2), 3, [0.0], [], 5, 6), (_lru(3), 4, [0.0], [], 4, 5),
        (_hyb(1), 3, [0.0, 1.0], [], 3, 5), (_hyb(2), 3, [0.0, 1.0], [], 4, 5), (_hyb(3), 4, [0.0, 1.0], [], 3, 4),
        (_hyb(2, 1.0, 0.0), 3, [0.0, 2.5], [], 3, 4), (_hyb(2, 0.3, 0.7), 3, [1.0, 3.0], [], 3, 4),
        (SIMPLE, 3, [0.0], [], 4, 5),
        (_disk(1, True, 2), 3, [0.0], [1], 3, 4), (_disk(2, True, 2), 3, [0.0], [1], 3, 4),
        (_disk(3, True, 2), 4, [0.0], [1, 3], 2, 3), (_disk(2, False, 1), 3, [0.0], [], 3, 4),
        (_disk(2, True, 1), 3, [0.0], [None, 1], 2, 4), (_disk(None, True, 1), 3, [0.0], [1], 2, 3),
        (_disk(1, False, 1), 3, [0.0], [1], 2, 4), (_disk(3, False, 1), 4, [0.0], [2], 2, 3),
        # shared=True: same trees, smaller depth (every proxy call is a round trip to the manager process)
        (_lru(1, True), 3, [0.0], [], 3, 4), (_lru(2, True), 3, [0.0], [], 3, 4), (_lru(3, True), 4, [0.0], [], 2, 3),
        (_hyb(1, shared=True), 3, [0.0, 1.0], [], 2, 3), (_hyb(2, shared=True), 3, [0.0, 1.0], [], 2, 3),
        (_hyb(3, shared=True), 4, [0.0, 1.0], [], 2, 3),
        (_disk(2, True, 1, True), 3, [0.0], [1], 2, 3),
    ]
    for cfg, keys, durs, reopens, dq, dt in plan:
        cases += tree_cases(cfg, keys, durs, reopens, dq if quick else dt)
    # --- DiskCache re-opened on a filled directory
    cases += reopen_cases(rng, quick)
    # --- reads before the cache is full must refresh recency (max_size >= 3)
    cases += recency_cases(rng, quick)
    # --- shared=True: two handles (pickled copy) on one cache, clear() issued through one of them
    cases += handle_cases(rng, quick)
    # --- two concurrent clients (locked operations put/get), all schedules
    cases += conc_cases(rng, quick)
    # --- random longer sequences
    n = (40 if quick else 500) * mult
    for _ in range(n):
        mx = rng.choice([1, 1, 2, 2, 3])
        keys = rng.choice([3, 4])
        ln = rng.randint(5, 40)
        aw, dw = rng.choice(WEIGHTS)
        sh = rng.random() < 0.15
        cases.append(random_seq(rng, _lru(mx, sh), ln, keys))
        cases.append(random_seq(rng, _hyb(mx, aw, dw, sh), ln, keys))
        cases.append(random_seq(rng, SIMPLE, ln, keys))
    for _ in range(n // 2):
        mx = rng.choice([None, 0, 1, 1, 2, 2, 3])
        cases.append(random_seq(rng, _disk(mx, rng.random() < 0.7, rng.choice([1, 2, 3]), rng.random() < 0.1),
                                rng.randint(5, 40), rng.choice([3, 4])))
    return cases


def nontrivial_key(c):
    cfg = c["cfg"]
    ck = tuple(sorted((k, str(v)) for k, v in cfg.items()))
    if c["kind"] == "tree":
        return ("tree", ck, c["keys"], str(c["prefix"]), c["depth"])
    if c["kind"] == "conc":
        return ("conc", ck, str(c["setup"]), str(c["a"]), str(c["b"]))
    puts = [o[1] for o in c["ops"] if o[0] == "P"]
    mx = cfg.get("max")
    if len(puts) != len(set(puts)) or (mx is not None and len(set(puts)) > mx):
        return ("seq", ck, str(c["ops"]), str(c.get("handles")))
    if c.get("handles") and len(set(c["handles"])) > 1:
        return ("seq", ck, str(c["ops"]), str(c["handles"]))
    return None


def distribution(c):
    cfg = c["cfg"]
    d = {"kind": c["kind"], "cls": cfg["cls"] + ("-shared" if cfg.get("shared") else ""),
         "max": cfg.get("max", "-")}
    if c["kind"] == "tree":
        d["tree_depth"] = len(c["prefix"]) + c["depth"]
    elif c["kind"] == "conc":
        d["conc_ops"] = f"{len(c['a'])}+{len(c['b'])}"
    else:
        d["seq_len"] = 10 * (len(c["ops"]) // 10)
    return d


def finding_id(c, impl_obs, kind):
    return None


def shrink(c):
    out = []
    if c["kind"] == "conc":
        for key in ("setup", "a", "b"):
            for i in range(len(c[key])):
                d = {k: v for k, v in c.items() if not k.startswith("_")}
                d[key] = c[key][:i] + c[key][i + 1:]
                if d["a"] and d["b"]:
                    out.append(d)
        return out
    if c["kind"] == "tree":
        keys = c["keys"]
        if c["depth"] > 0:
            for o in alphabet(keys, c["durs"], c["reopens"], len(c["prefix"])):
                d = dict(c)
                d["prefix"] = c["prefix"] + [o]
                d["depth"] = 0
                out.append(d)
            for o in alphabet(keys, c["durs"], c["reopens"], len(c["prefix"])):
                d = dict(c)
                d["prefix"] = c["prefix"] + [o]
                d["depth"] = c["depth"] - 1
                out.append(d)
        else:
            ops = []
            for o in c["prefix"]:
                ops += [o] + [["M", k] for k in range(keys)] + [["L"]]
            out.append({"kind": "seq", "cfg": c["cfg"], "ops": ops})
        return out
    ops, hs = c["ops"], c.get("handles")
    for i in range(len(ops)):
        d = {"kind": "seq", "cfg": c["cfg"], "ops": ops[:i] + ops[i + 1:]}
        if hs:
            d["handles"] = hs[:i] + hs[i + 1:]
        out.append(d)
    return out
