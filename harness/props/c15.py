"""C15 - Cache keys identify argument values: equal key iff equal value.

A case is a PAIR of values (v, w) (or a memoize call sequence: each call is the value (args, kwargs) =
["T", [["T", positional], ["D", [[["s", name], value], ..]]]]).  Values are JSON trees:
  atoms      ["i",z] ["b",0|1] ["f",q] (the float q/4) ["s",str] ["y",[byte,..]] ["n"] ["t",typename] ["m"] (np.ma.masked)
             ["o",cls,id,picklable]
  sequences  ["T",items] tuple  ["L",items] list  ["Q",maxlen|null,items] deque  ["B",items] bytearray
             ["A",code,items] array.array  ["N",masked,dtype,shape,items(,layout)] ndarray (items in logical C order;
             layout "C" | "F" Fortran-ordered | "T" transposed view | "S" non-contiguous slice | "R" reversed view:
             only the Python side honours it when building the real array - the Coq model never sees it; for a MASKED
             array (masked=1) the same slot says how the mask is given when NO element is masked: "A" explicit bool
             array (default) | "N" no mask argument (mask is numpy.ma.nomask) | "F" mask=False | "S" shrink_mask():
             numpy.ma treats nomask and an all-False mask as the same value, and so does the model)
  sets       ["S",items] set  ["F",items] frozenset            (items in insertion order)
  mappings   ["D",pairs] dict  ["O",pairs] OrderedDict  ["E",factory|null,pairs] defaultdict  ["C",pairs] Counter
  pandas     ["SR",name_atom,dtype,idx_atoms,val_atoms]  ["DF",[[col_atom,dtype,val_atoms],..],idx_atoms]
The REAL Python values are built from the tree (v and w independently), pipefunc.cache.to_hashable is called on
both, the keys are compared with ==, hash() is tried, and the canonical repr of each key is compared with the one
computed by a second interpreter (other PYTHONHASHSEED; all values of a run in ONE subprocess).
"""
from __future__ import annotations

import json
import os
import subprocess
import sys
import threading

from ..coqlit import Err, Ok, cbool, clist, cstr

PROP = "C15"
RUN = "Run_C15"
THEOREMS = "Props/C15.v"
ANCHORS = [("pipefunc/cache.py",
            ["to_hashable", "_hashable_iterable", "_hashable_mapping", "_cloudpickle_key", "_pickle_key",
             "try_to_hashable", "memoize"])]
RULE = ("pairs (v, w) from a recursive generator over the supported types (depth <= 3): independently built equal "
        "values with permuted set/dict insertion orders and ==-equal scalar substitutions (1/True/1.0), single-step "
        "near misses (container kind, maxlen, typecode, dtype, shape, order, element, key, value), a hand-written "
        "look-alike table, independent pairs, a malformed stream (mutually incomparable set elements / dict keys, "
        "frozenset keys, masked arrays, pandas, forged marker tuples, unpicklable objects, fallback off), memoize "
        "call sequences, ndarray pairs with different MEMORY LAYOUTS (C / Fortran / transposed view / non-contiguous "
        "slice / reversed view, rank >= 2 with unequal axis sizes: same content & other layout, other content & same "
        "bytes in memory), and re-keying after an IN-PLACE modification of the same live object (ndarray, list, dict, "
        "set, bytearray, deque, array, also nested); each key also computed in a second interpreter with another PYTHONHASHSEED; "
        "non-trivial = at least one side is a container; distinct by (fp, v, w)")
ASSUMPTIONS = ["floats are small dyadic values q/4 (no NaN/inf: nan != nan, an array containing NaN never equals itself)",
               "arbitrary picklable objects are instances of classes with __eq__ by (class, id) and __hash__ = None; "
               "the md5 of their cloudpickle is modelled as an injective function of (class, id)",
               "sets / mappings are sorted by pipefunc.cache._sort_key, a total order: the result does not depend on the "
               "sorting algorithm (the model still runs CPython's binary insertion sort, lists < 64 elements)",
               "str/bytes compared by code units (UTF-8 for non-ASCII str: order preserving)"]
TRUSTED = ["Model/PyVal.v (Python ==, hash, the canonical sort key _sort_key on the value universe) and Model/ToHashable.v mirror CPython / "
           "pipefunc/cache.py by hand; tie = per-run differential execution on the generated pairs",
           "cloudpickle determinism and md5 collision freedom for the opaque objects (sampled, not modelled)"]

SECOND_SEED = "4242"

# ------------------------------------------------------------------ opaque ("arbitrary picklable") objects


class _Opq:
    __hash__ = None  # unhashable: to_hashable has to fall back to cloudpickle

    def __init__(self, i, picklable=True):
        self.i = i
        if not picklable:
            self.lock = threading.Lock()  # cloudpickle cannot pickle a lock

    def __eq__(self, other):
        return type(other) is type(self) and other.i == self.i

    def __repr__(self):
        return f"{type(self).__name__}({self.i})"


class OpqA(_Opq):
    pass


class OpqB(_Opq):
    pass


OPQ = {"OpqA": OpqA, "OpqB": OpqB}
TYPES = {"int": int, "list": list, "dict": dict, "set": set, "str": str, "float": float, "tuple": tuple}


# ------------------------------------------------------------------ building the real values
def build(t):
    import array
    import collections

    k = t[0]
    if k == "i":
        return int(t[1])
    if k == "b":
        return bool(t[1])
    if k == "f":
        return t[1] / 4.0
    if k == "s":
        return t[1]
    if k == "y":
        return bytes(t[1])
    if k == "n":
        return None
    if k == "t":
        return TYPES[t[1]]
    if k == "m":
        import numpy as np

        return np.ma.masked
    if k == "o":
        return OPQ[t[1]](t[2], bool(t[3]))
    if k == "T":
        return tuple(build(x) for x in t[1])
    if k == "L":
        return [build(x) for x in t[1]]
    if k == "Q":
        return collections.deque([build(x) for x in t[2]], maxlen=t[1])
    if k == "B":
        return bytearray(build(x) for x in t[1])
    if k == "A":
        return array.array(t[1], [build(x) for x in t[2]])
    if k == "N":
        import numpy as np

        _, masked, dt, shape, items = t[:5]
        n = len(items)
        mask = [x[0] == "m" for x in items]
        if dt == "|O":
            data = np.empty(n, dtype=object)
            for j, x in enumerate(items):
                data[j] = None if mask[j] else build(x)
        else:
            data = np.array([0 if mask[j] else build(x) for j, x in enumerate(items)], dtype=np.dtype(dt))
        data = data.reshape(tuple(shape))
        if masked:
            mode = t[5] if len(t) > 5 else "A"
            if any(mask) or mode == "A":
                return np.ma.masked_array(data, mask=np.array(mask, dtype=bool).reshape(tuple(shape)))
            if mode == "N":
                out = np.ma.masked_array(data)
            elif mode == "F":
                out = np.ma.masked_array(data, mask=False)
            else:
                out = np.ma.masked_array(data, mask=np.zeros(tuple(shape), dtype=bool))
                out.shrink_mask()
            assert mode == "F" or out.mask is np.ma.nomask, (t, out.mask)   # (mask=False: numpy version dependent)
            return out
        return _with_layout(data, t[5] if len(t) > 5 else "C")
    if k == "S":
        out = set()
        for x in t[1]:
            out.add(build(x))
        return out
    if k == "F":
        return frozenset(build(x) for x in t[1])
    if k in ("D", "O", "E", "C"):
        pairs = t[2] if k == "E" else t[1]
        if k == "D":
            out = {}
        elif k == "O":
            out = collections.OrderedDict()
        elif k == "E":
            out = collections.defaultdict(None if t[1] is None else TYPES[t[1]])
        else:
            out = collections.Counter()
        for a, b in pairs:
            out[build(a)] = build(b)
        return out
    if k == "SR":
        import numpy as np
        import pandas as pd

        _, name, dt, idx, vals = t
        return pd.Series([build(x) for x in vals], index=[build(x) for x in idx], name=build(name),
                         dtype=np.dtype(dt))
    if k == "DF":
        import numpy as np
        import pandas as pd

        _, cols, idx = t
        index = [build(x) for x in idx]
        return pd.DataFrame({build(c): pd.Series([build(x) for x in vals], index=index, dtype=np.dtype(dt))
                             for c, dt, vals in cols}, index=index)
    raise ValueError(k)


def _with_layout(data, layout):
    """The same logical array (shape, dtype, content) with another memory layout."""
    import numpy as np

    if layout == "C" or data.ndim == 0:
        return data
    if layout == "F":
        out = np.asfortranarray(data)
    elif layout == "T":  # a transposed view of a C-contiguous base
        out = np.ascontiguousarray(data.T).T
    elif layout == "S":  # every second element along the last axis of a larger base
        big = np.empty(data.shape[:-1] + (2 * data.shape[-1] + 1,), dtype=data.dtype)
        if data.dtype == object:
            big[...] = None
        else:
            big[...] = 0
        big[..., 1::2] = data
        out = big[..., 1::2]
    elif layout == "R":  # negative strides
        out = np.ascontiguousarray(data[::-1])[::-1]
    else:
        raise ValueError(layout)
    assert out.shape == data.shape and out.dtype == data.dtype
    return out


# ------------------------------------------------------------------ Coq literals
def _cbytes(bs):
    if all(32 <= b <= 126 for b in bs):
        return cstr(bytes(bs).decode("ascii"))
    return "(sb [" + "; ".join(str(b) for b in bs) + "]%nat)"


def _z(n):
    return f"{n}%Z" if n >= 0 else f"({n})%Z"


def _zarg(n):
    return str(n) if n >= 0 else f"({n})"


def _atom(t):
    k = t[0]
    if k == "i":
        return f"(AInt {_z(t[1])})"
    if k == "b":
        return f"(ABool {cbool(bool(t[1]))})"
    if k == "f":
        return f"(AFloat {_z(t[1])})"
    if k == "s":
        return f"(AStr {cstr(t[1])})"
    if k == "y":
        return f"(ABytes {_cbytes(t[1])})"
    if k == "n":
        return "ANone"
    if k == "t":
        return f"(AType {cstr(t[1])})"
    if k == "m":
        return "AMasked"
    if k == "o":
        return f"(AOpaque {cstr(t[1])} {_z(t[2])} {cbool(bool(t[3]))})"
    raise ValueError(k)


def lit(t):
    k = t[0]
    if k == "i":
        return f"(vi {_zarg(t[1])})"
    if k == "b":
        return f"(vb {cbool(bool(t[1]))})"
    if k == "f":
        return f"(vf {_zarg(t[1])})"
    if k == "s":
        return f"(vs {cstr(t[1])})"
    if k == "y":
        return f"(vy {_cbytes(t[1])})"
    if k == "n":
        return "vn"
    if k == "t":
        return f"(vt {cstr(t[1])})"
    if k == "m":
        return "vm"
    if k == "o":
        return f"(vo {cstr(t[1])} {_zarg(t[2])} {cbool(bool(t[3]))})"
    if k == "S":
        # sorted(a_set) starts from the set's ITERATION order (hash table order, not insertion order): the model
        # gets the elements in the order in which this process iterates over the really built set
        return f"(xS {clist([lit(x) for x in _iteration_order(t)])})"
    if k in ("T", "L", "B", "F"):
        return f"(x{k} {clist([lit(x) for x in t[1]])})"
    if k == "Q":
        return f"(xQ {'None' if t[1] is None else '(Some ' + _z(t[1]) + ')'} {clist([lit(x) for x in t[2]])})"
    if k == "A":
        return f"(xA {cstr(t[1])} {clist([lit(x) for x in t[2]])})"
    if k == "N":
        return (f"(xN {cbool(bool(t[1]))} {cstr(t[2])} {clist([_z(d) for d in t[3]])} "
                f"{clist([lit(x) for x in t[4]])})")
    if k in ("D", "O", "C"):
        return f"(x{k} {clist(['(' + lit(a) + ', ' + lit(b) + ')' for a, b in t[1]])})"
    if k == "E":
        return (f"(xE {'None' if t[1] is None else '(Some ' + cstr(t[1]) + ')'} "
                f"{clist(['(' + lit(a) + ', ' + lit(b) + ')' for a, b in t[2]])})")
    if k == "SR":
        return (f"(PSeries {_atom(t[1])} {cstr(t[2])} {clist([_atom(x) for x in t[3]])} "
                f"{clist([_atom(x) for x in t[4]])})")
    if k == "DF":
        cols = clist([f"({_atom(c)}, ({cstr(dt)}, {clist([_atom(x) for x in vals])}))" for c, dt, vals in t[1]])
        return f"(PFrame {cols} {clist([_atom(x) for x in t[2]])})"
    raise ValueError(k)


def _iteration_order(t):
    items = list(t[1])
    if len(items) < 2:
        return items
    objs = [build(x) for x in items]
    real = set()
    for o in objs:
        real.add(o)
    out, used = [], set()
    for e in real:
        for j, o in enumerate(objs):
            if j not in used and o == e and type(o) is type(e):
                used.add(j)
                out.append(items[j])
                break
    assert len(out) == len(items), (t, out)
    return out


def emit_case(c) -> str:
    if c["kind"] == "pair":
        return f"(CPair {cbool(c['fp'])} {lit(c['v'])} {lit(c['w'])})"
    if c["kind"] == "pickle":
        return f"(CPickle {lit(c['v'])})"
    if c["kind"] == "rekey":
        return f"(CRekey {lit(c['v'])} {lit(c['w'])})"
    return f"(CMemo {clist([lit(a) for a in c['args']])})"


# ------------------------------------------------------------------ canonical repr of a key (process independent)
def canon(k):
    import numpy as np

    if isinstance(k, tuple):
        return "(" + ",".join(canon(x) for x in k) + ")"
    if isinstance(k, frozenset):
        return "fs{" + ",".join(sorted(canon(x) for x in k)) + "}"
    if isinstance(k, type):
        return f"<{k.__module__}.{k.__qualname__}>"
    if k is np.ma.masked:
        return "masked"
    if isinstance(k, list):
        return "[" + ",".join(canon(x) for x in k) + "]"
    return f"{type(k).__name__}:{k!r}"


def _pk(key):
    """The DiskCache file-name hash of a key (None when the key cannot be pickled)."""
    from pipefunc.cache import _pickle_key

    try:
        return _pickle_key(key)
    except Exception as e:  # noqa: BLE001
        return f"PICKLE-ERR {type(e).__name__}"


def _key_of(fp, tree):
    from pipefunc.cache import to_hashable

    try:
        # round trip through JSON text: no accidental object sharing between equal strings of the tree (pickle
        # memoises by identity, so _pickle_key would depend on how the harness happened to build the value)
        obj = build(json.loads(json.dumps(tree)))
    except Exception as e:  # noqa: BLE001
        return None, ("bad-case", f"{type(e).__name__}: {e}")
    try:
        return (to_hashable(obj, fp),), None
    except TypeError:  # UnhashableError is a TypeError
        return None, Err("TypeError")
    except Exception as e:  # noqa: BLE001
        return None, Err(e)


# ------------------------------------------------------------------ second interpreter
_SECOND: dict[str, str] = {}


def _sig(fp, tree):
    return json.dumps([bool(fp), tree], sort_keys=True)


def second_main():
    """Runs in the second interpreter: stdin = JSON list of [fp, tree]; stdout = JSON list of canonical reprs."""
    from .. import common

    common.impl_env_ready()
    reqs = json.loads(sys.stdin.read())
    out = []
    for fp, tree in reqs:
        k, err = _key_of(fp, tree)
        try:
            out.append([canon(k[0]), _pk(k[0])] if k is not None else ["ERR", "ERR"])
        except Exception as e:  # noqa: BLE001
            out.append([f"CANON-ERR {type(e).__name__}", "ERR"])
    sys.stdout.write("\n@@C15@@" + json.dumps(out))


def _second_batch(reqs):
    """reqs: list of (fp, tree) -> fills _SECOND."""
    todo, seen = [], set()
    for fp, tree in reqs:
        sg = _sig(fp, tree)
        if sg not in _SECOND and sg not in seen:
            seen.add(sg)
            todo.append([bool(fp), tree])
    if not todo:
        return
    from .. import common

    env = dict(os.environ)
    env["PYTHONHASHSEED"] = SECOND_SEED
    env["PYTHONPATH"] = str(common.VERIF)
    env["PYTHONDONTWRITEBYTECODE"] = "1"
    p = subprocess.run(["/venv/bin/python", "-W", "ignore", "-c",
                        "from harness.props import c15; c15.second_main()"],
                       input=json.dumps(todo), capture_output=True, text=True, env=env, cwd=str(common.VERIF),
                       timeout=1800)
    if p.returncode != 0 or "@@C15@@" not in p.stdout:
        raise common.Infra("second interpreter failed: " + (p.stderr or p.stdout)[-2000:])
    res = json.loads(p.stdout.split("@@C15@@", 1)[1])
    assert len(res) == len(todo)
    for (fp, tree), r in zip(todo, res):
        _SECOND[_sig(fp, tree)] = r


# ------------------------------------------------------------------ implementation driver
def _side(fp, tree):
    k, err = _key_of(fp, tree)
    if k is None:
        return None, err, None
    key = k[0]
    try:
        hash(key)
        h = True
    except TypeError:
        h = False
    sg = _sig(fp, tree)
    if sg not in _SECOND:
        _second_batch([(fp, tree)])
    try:
        stable = canon(key) == _SECOND[sg][0]
    except Exception:  # noqa: BLE001
        stable = False
    return k, Ok(h), stable


def run_impl(c):
    import warnings

    warnings.simplefilter("ignore")
    if c["kind"] == "pair":
        fp = c["fp"]
        kv, ov, sv = _side(fp, c["v"])
        kw, ow, sw = _side(fp, c["w"])
        if kv is not None and kw is not None:
            try:
                eq = bool(kv[0] == kw[0])
            except Exception as e:  # noqa: BLE001
                eq = Err(e)
        else:
            eq = None
        return [ov, ow, eq, sv, sw]
    if c["kind"] == "pickle":
        k, err = _key_of(True, c["v"])
        if k is None:
            return err
        sg = _sig(True, c["v"])
        if sg not in _SECOND:
            _second_batch([(True, c["v"])])
        return Ok(_pk(k[0]) == _SECOND[sg][1])
    if c["kind"] == "rekey":
        from pipefunc.cache import to_hashable

        try:
            obj = build(json.loads(json.dumps(c["v"])))
            k0 = to_hashable(obj)
            target = _nav(obj, c["v"], c["path"])
            _assign_inplace(target, json.loads(json.dumps(_get(c["w"], c["path"]))))
            k1 = to_hashable(obj)                                   # the SAME object, new contents
            kf = to_hashable(build(json.loads(json.dumps(c["w"]))))  # an independently built w
            return [bool(k1 == kf), bool(k1 == k0)]
        except TypeError:
            return Err("TypeError")
    # memoize call sequence: the body reports which call executed it
    from pipefunc.cache import memoize

    cur = [0]

    def body(*a, **k):
        return cur[0]

    f = memoize()(body)
    out = []
    for j, call in enumerate(c["args"]):
        cur[0] = j
        try:
            call = json.loads(json.dumps(call))
            args = [build(a) for a in call[1][0][1]]
            kwargs = {name[1]: build(v) for name, v in call[1][1][1]}
            out.append(int(f(*args, **kwargs)))
        except TypeError:
            out.append(Err("TypeError"))
        except Exception as e:  # noqa: BLE001
            out.append(Err(e))
    return out


# ------------------------------------------------------------------ in-place mutation of a built value
def _nav(obj, tree, path):
    """The sub-object of the built value `obj` at `path` of its tree (paths as produced by _paths)."""
    path = list(path)
    while path:
        k = tree[0]
        if k in ("T", "L"):
            _, j = path[:2]
            obj, tree, path = obj[j], tree[1][j], path[2:]
        elif k == "Q":
            _, j = path[:2]
            obj, tree, path = obj[j], tree[2][j], path[2:]
        elif k == "N":
            _, j = path[:2]
            obj, tree, path = obj.flat[j], tree[4][j], path[2:]
        elif k in ("D", "O", "C", "E"):
            f, j, _one = path[:3]
            obj, tree, path = list(obj.values())[j], tree[f][j][1], path[3:]
        else:
            raise ValueError(k)
    return obj


def _assign_inplace(obj, new):
    """Turn the live object `obj` into the value `new` (same kind) WITHOUT creating a new object."""
    import numpy as np

    k = new[0]
    if k == "L":
        obj[:] = [build(x) for x in new[1]]
    elif k == "Q":
        obj.clear()
        obj.extend(build(x) for x in new[2])
    elif k == "B":
        obj[:] = bytes(build(x) for x in new[1])
    elif k == "A":
        obj[:] = build(new)
    elif k == "N":
        np.copyto(obj, build(new))
    elif k == "S":
        obj.clear()
        for x in new[1]:
            obj.add(build(x))
    elif k in ("D", "O", "C", "E"):
        obj.clear()
        for a, b in (new[2] if k == "E" else new[1]):
            obj[build(a)] = build(b)
    else:
        raise ValueError(k)


INPLACE_KINDS = ("L", "Q", "B", "A", "N", "S", "D", "O", "C", "E")


def inplace_variant(rng, t):
    """A value of the same kind (and dtype/shape/typecode/maxlen/factory) that `t` can be turned into in place;
    None if not applicable.  With probability ~1/4 an EQUAL value (other insertion order / same content)."""
    k = t[0]
    t = json.loads(json.dumps(t))
    if k not in INPLACE_KINDS or (k == "N" and t[1]):
        return None
    if rng.random() < 0.25:
        return reorder(rng, t)
    if k == "L":
        op = rng.randrange(4)
        if op == 0 and len(t[1]) >= 2:
            i, j = rng.sample(range(len(t[1])), 2)
            t[1][i], t[1][j] = t[1][j], t[1][i]
        elif op == 1 and t[1]:
            t[1].pop(rng.randrange(len(t[1])))
        elif op == 2 and t[1]:
            t[1][rng.randrange(len(t[1]))] = g_atom(rng)
        else:
            t[1].append(g_atom(rng))
        return t
    if k == "Q":
        if t[2] and rng.random() < 0.6:
            t[2][rng.randrange(len(t[2]))] = g_atom(rng)
        elif t[1] is None or len(t[2]) < t[1]:
            t[2].append(g_atom(rng))
        elif t[2]:
            t[2].pop()
        return t
    if k == "B":
        if t[1] and rng.random() < 0.6:
            t[1][rng.randrange(len(t[1]))] = ["i", rng.choice([0, 1, 97, 255])]
        else:
            t[1].append(["i", 7])
        return t
    if k == "A":
        ints = t[1] in ARRAY_INT_CODES
        new = ["i", rng.choice([0, 1, 2, 3, 7])] if ints else ["f", rng.choice(FLOATS)]
        if t[2] and rng.random() < 0.6:
            t[2][rng.randrange(len(t[2]))] = new
        else:
            t[2].append(new)
        return t
    if k == "N":
        dt, items = t[2], t[4]
        if not items:
            return t
        op = rng.randrange(3)
        def new_elem():
            if dt in INT_DTYPES:
                return ["i", rng.choice([0, 1, 2, 3, 7, 9])]
            if dt in FLOAT_DTYPES:
                return ["f", rng.choice(FLOATS + [20])]
            if dt == "|b1":
                return ["b", rng.randrange(2)]
            if dt.startswith("<U"):
                return ["s", rng.choice(["", "a", "b"])]
            return g_val(rng, 1, allow_nd=False)
        if op == 0:  # x[j] = ...
            items[rng.randrange(len(items))] = new_elem()
        elif op == 1 and len(items) >= 2:  # swap two elements
            i, j = rng.sample(range(len(items)), 2)
            items[i], items[j] = items[j], items[i]
        else:  # x[:] = ...
            t[4] = [new_elem() for _ in items]
        return t
    if k == "S":
        cls = _cls(t[1][0]) if t[1] else "num"
        if t[1] and rng.random() < 0.5:
            t[1].pop(rng.randrange(len(t[1])))
            return t
        cand = g_unique(rng, len(t[1]) + 1, lambda: g_atom(rng, cls if cls in ("num", "str", "bytes") else "num"))
        keys = {build(x) for x in t[1]}
        for x in cand:
            if build(x) not in keys:
                t[1].append(x)
                return t
        return None
    pairs = t[2] if k == "E" else t[1]
    op = rng.randrange(3)
    if op == 0 and pairs:
        pairs[rng.randrange(len(pairs))][1] = ["i", rng.choice([1, 2, 9, -1, -2])] if k == "C" else g_atom(rng)
    elif op == 1 and pairs:
        pairs.pop(rng.randrange(len(pairs)))
    else:
        cls = _cls(pairs[0][0]) if pairs else "num"
        keys = {build(a) for a, _ in pairs}
        for x in g_unique(rng, len(pairs) + 2, lambda: g_atom(rng, cls if cls in ("num", "str", "bytes") else "num")):
            if build(x) not in keys:
                pairs.append([x, ["i", 1] if k == "C" else g_atom(rng)])
                break
        else:
            return None
    return t


def relayout(rng, t):
    """The same value with other memory layouts of its (unmasked) ndarrays."""
    k = t[0]
    if k == "N":
        t = json.loads(json.dumps(t))
        if not t[1]:
            lay = rng.choice(["C", "F", "T", "S", "R"])
            t = t[:5] + [lay]
            if t[2] == "|O":
                t[4] = [relayout(rng, x) for x in t[4]]
        elif not any(x[0] == "m" for x in t[4]):
            t = t[:5] + [rng.choice(["A", "N", "F", "S"])]
        return t
    if k in ("T", "L", "S", "F"):
        return [k, [relayout(rng, x) for x in t[1]]] if k in ("T", "L") else t
    if k == "Q":
        return ["Q", t[1], [relayout(rng, x) for x in t[2]]]
    if k in ("D", "O", "C"):
        return [k, [[a, relayout(rng, b)] for a, b in t[1]]]
    if k == "E":
        return ["E", t[1], [[a, relayout(rng, b)] for a, b in t[2]]]
    return t


def memory_twin(t, layout="T"):
    """For a C-ordered ndarray t of rank >= 2: the array of the same shape and dtype whose MEMORY (under `layout`
    "T" or "F") holds t's elements in t's order - its logical content differs unless t is symmetric."""
    import numpy as np

    _, masked, dt, shape, items = t[:5]
    if masked or len(shape) < 2 or not items:
        return None
    idx = np.arange(len(items)).reshape(tuple(shape)[::-1]).transpose().reshape(-1)
    return ["N", 0, dt, list(shape), [items[int(j)] for j in idx], layout]


# ------------------------------------------------------------------ generators
INTS = [-1, 0, 1, 2, 3, 7, 255]
FLOATS = [-2, 0, 1, 2, 4, 6, 8, 12]          # q/4: -0.5 0 0.25 0.5 1.0 1.5 2.0 3.0
STRS = ["", "a", "b", "ab", "B", "a b", "é", "1"]
BYTES = [[], [97], [98], [97, 98], [255], [0]]
NUM_EQ = {  # ==-equal scalars of other types
    0: [["i", 0], ["b", 0], ["f", 0]], 1: [["i", 1], ["b", 1], ["f", 4]], 2: [["i", 2], ["f", 8]], 3: [["i", 3], ["f", 12]],
}
INT_DTYPES = ["<i8", "<i4", "<i2", "|u1"]
FLOAT_DTYPES = ["<f8", "<f4"]
ARRAY_INT_CODES = ["b", "h", "i", "l", "q"]
ARRAY_FLOAT_CODES = ["f", "d"]
FACTORIES = [None, "int", "list", "dict", "set", "str", "float"]


def g_num(rng):
    r = rng.random()
    if r < 0.6:
        return ["i", rng.choice(INTS)]
    if r < 0.75:
        return ["b", rng.randrange(2)]
    return ["f", rng.choice(FLOATS)]


def g_atom(rng, cls=None):
    cls = cls or rng.choice(["num", "num", "str", "bytes", "none"])
    if cls == "num":
        return g_num(rng)
    if cls == "str":
        return ["s", rng.choice(STRS)]
    if cls == "bytes":
        return ["y", list(rng.choice(BYTES))]
    return ["n"]


def _pykey(t):
    """Python value used to de-duplicate set elements / dict keys (they are hashable)."""
    return build(t)


def g_unique(rng, n, mk):
    out, seen = [], set()
    for _ in range(n * 3):
        if len(out) >= n:
            break
        t = mk()
        try:
            k = _pykey(t)
            if k in seen:
                continue
            seen.add(k)
        except TypeError:
            continue
        out.append(t)
    return out


def g_hashable(rng, depth, cls=None, seedfree=False):
    """A hashable value: scalar, tuple of hashables, frozenset.  seedfree: inside compound values only numbers and
    None (their hashes - hence the iteration order of a set holding them - do not depend on PYTHONHASHSEED; the
    model is told the iteration order of THIS process and predicts the same key for the second one)."""
    r = rng.random()
    if depth <= 0 or r < 0.6 or cls is not None:
        if seedfree == "inner":
            return g_atom(rng, rng.choice(["num", "num", "none"]))
        return g_atom(rng, cls)
    inner = "inner" if seedfree else False
    if r < 0.85:
        return ["T", [g_hashable(rng, depth - 1, seedfree=inner) for _ in range(rng.randint(0, 3))]]
    if inner:
        return ["F", g_unique(rng, rng.randint(0, 3), lambda: g_num(rng))]
    return ["F", g_keys(rng, depth - 1, rng.randint(0, 3))]


def g_keys(rng, depth, n, mixed=False):
    """n distinct set elements / dict keys: one comparable class unless `mixed`."""
    if mixed:
        return g_unique(rng, n, lambda: g_hashable(rng, depth, seedfree=True))
    cls = rng.choice(["num", "num", "str", "str", "bytes"])
    return g_unique(rng, n, lambda: g_atom(rng, cls))


def g_ndarray(rng, masked=False):
    kind = rng.choice(["i", "i", "f", "b", "U", "O"])
    shape = rng.choice([[0], [1], [2], [3], [4], [2, 2], [1, 2], [2, 1], [2, 3], [3, 2], [], [2, 1, 2], [6], [1, 1]])
    n = 1
    for d in shape:
        n *= d
    if kind == "i":
        dt = rng.choice(INT_DTYPES)
        items = [["i", rng.choice([0, 1, 2, 3, 7])] for _ in range(n)]
    elif kind == "f":
        dt = rng.choice(FLOAT_DTYPES)
        items = [["f", rng.choice(FLOATS)] for _ in range(n)]
    elif kind == "b":
        dt = "|b1"
        items = [["b", rng.randrange(2)] for _ in range(n)]
    elif kind == "U":
        dt = rng.choice(["<U1", "<U2", "<U3"])
        items = [["s", rng.choice(["", "a", "b"])] for _ in range(n)]
    else:
        dt = "|O"
        items = [g_val(rng, 1, allow_nd=False) for _ in range(n)]
    if masked and kind != "O":
        if rng.random() < 0.4:   # a MaskedArray without any masked element, mask given in one of four ways
            return ["N", 1, dt, shape, items, rng.choice(["A", "N", "F", "S"])]
        items = [["m"] if rng.random() < 0.4 else x for x in items]
        return ["N", 1, dt, shape, items]
    return ["N", 0, dt, shape, items]


def g_series(rng):
    n = rng.randint(0, 3)
    kind = rng.choice(["i", "f", "s"])
    if kind == "i":
        dt, vals = "<i8", [["i", rng.choice(INTS)] for _ in range(n)]
    elif kind == "f":
        dt, vals = "<f8", [["f", rng.choice(FLOATS)] for _ in range(n)]
    else:
        dt, vals = "|O", [["s", rng.choice(STRS)] for _ in range(n)]
    if rng.random() < 0.5:
        idx = [["i", j] for j in range(n)]
    else:
        idx = g_unique(rng, n, lambda: ["s", rng.choice(STRS)])
        vals = vals[:len(idx)]
    name = ["n"] if rng.random() < 0.5 else ["s", rng.choice(["x", "y"])]
    return ["SR", name, dt, idx, vals]


def g_frame(rng):
    n = rng.randint(1, 3)
    idx = [["i", j] for j in range(n)] if rng.random() < 0.6 else [["i", j + 5] for j in range(n)]
    cols = []
    for name in rng.sample(["A", "B", "C"], rng.randint(1, 2)):
        if rng.random() < 0.6:
            cols.append([["s", name], "<i8", [["i", rng.choice(INTS)] for _ in range(n)]])
        else:
            cols.append([["s", name], "<f8", [["f", rng.choice(FLOATS)] for _ in range(n)]])
    return ["DF", cols, idx]


def g_val(rng, depth, allow_nd=True, mixed=0.0, exotic=0.0):
    """A random value of the supported types, nesting depth <= depth."""
    if depth <= 0 or rng.random() < 0.22:
        if rng.random() < 0.08:
            return ["o", rng.choice(["OpqA", "OpqB"]), rng.randrange(3), 1]
        return g_atom(rng)
    d = depth - 1
    sub = lambda: g_val(rng, d, allow_nd, mixed, exotic)  # noqa: E731
    n = rng.choice([0, 1, 2, 2, 3, 4])
    mx = rng.random() < mixed
    k = rng.choice(["T", "T", "L", "L", "Q", "B", "A", "N", "S", "S", "F", "D", "D", "D", "O", "E", "C", "X"])
    if k == "X":
        if rng.random() >= exotic:
            k = "L"
        else:
            k = rng.choice(["SR", "DF", "NM"])
    if k in ("T", "L"):
        return [k, [sub() for _ in range(n)]]
    if k == "Q":
        ml = rng.choice([None, None, n, n + 2])
        return ["Q", ml, [sub() for _ in range(n)]]
    if k == "B":
        return ["B", [["i", rng.choice([0, 1, 97, 255])] for _ in range(n)]]
    if k == "A":
        if rng.random() < 0.7:
            return ["A", rng.choice(ARRAY_INT_CODES), [["i", rng.choice([0, 1, 2, 3, 7])] for _ in range(n)]]
        return ["A", rng.choice(ARRAY_FLOAT_CODES), [["f", rng.choice(FLOATS)] for _ in range(n)]]
    if k == "N":
        return g_ndarray(rng) if allow_nd else ["L", [sub() for _ in range(n)]]
    if k == "NM":
        return g_ndarray(rng, masked=True)
    if k in ("S", "F"):
        return [k, g_keys(rng, d, n, mx)]
    if k in ("D", "O"):
        return [k, [[a, sub()] for a in g_keys(rng, d, n, mx)]]
    if k == "E":
        return ["E", rng.choice(FACTORIES), [[a, sub()] for a in g_keys(rng, d, n, mx)]]
    if k == "C":
        r = rng.random()
        pool = [0, 1] if r < 0.1 else [-1, -3, 1, 2] if r < 0.25 else [1, 2, 3]   # zero / negative counts are legal
        return ["C", [[a, ["i", rng.choice(pool)]] for a in g_keys(rng, d, n, mx)]]
    if k == "SR":
        return g_series(rng)
    return g_frame(rng)


def children(t):
    k = t[0]
    if k in ("T", "L", "B", "S", "F"):
        return t[1]
    if k in ("Q", "A"):
        return t[2]
    if k == "N":
        return t[4]
    return []


def reorder(rng, t, subst=0.0):
    """An independently built EQUAL value of the same type: permuted insertion orders of sets / unordered mappings,
    optionally ==-equal scalars of another type in generic containers."""
    k = t[0]
    if k == "i" and rng.random() < subst and t[1] in NUM_EQ:
        return list(rng.choice(NUM_EQ[t[1]]))
    if k in ("T", "L"):
        return [k, [reorder(rng, x, subst) for x in t[1]]]
    if k == "Q":
        return ["Q", t[1], [reorder(rng, x, subst) for x in t[2]]]
    if k == "N" and t[2] == "|O":
        return ["N", t[1], t[2], list(t[3]), [reorder(rng, x, subst) for x in t[4]]] + list(t[5:])
    if k in ("S", "F"):
        items = [reorder(rng, x, subst) for x in t[1]]
        rng.shuffle(items)
        return [k, items]
    if k in ("D", "E", "C", "O"):
        pairs = t[2] if k == "E" else t[1]
        new = [[reorder(rng, a, subst if k != "C" else 0.0), reorder(rng, b, subst if k != "C" else 0.0)] for a, b in pairs]
        if k != "O":
            rng.shuffle(new)
        return ["E", t[1], new] if k == "E" else [k, new]
    return json.loads(json.dumps(t))


def _paths(t, pre=()):
    out = [pre]
    k = t[0]
    if k in ("T", "L"):  # (never into set elements / dict keys: they must stay distinct)
        for j, x in enumerate(t[1]):
            out += _paths(x, pre + (1, j))
    elif k == "Q":
        for j, x in enumerate(t[2]):
            out += _paths(x, pre + (2, j))
    elif k == "N" and t[2] == "|O":
        for j, x in enumerate(t[4]):
            out += _paths(x, pre + (4, j))
    elif k in ("D", "O", "E"):  # (Counter values stay ints)
        f = 2 if k == "E" else 1
        for j, (a, b) in enumerate(t[f]):
            out += _paths(b, pre + (f, j, 1))
    return out


def _get(t, path):
    for p in path:
        t = t[p]
    return t


def _set(t, path, new):
    t = json.loads(json.dumps(t))
    if not path:
        return new
    cur = t
    for p in path[:-1]:
        cur = cur[p]
    cur[path[-1]] = new
    return t


def mutate_node(rng, t):
    """A single-step near miss of the node t (may return None when no mutation applies)."""
    k = t[0]
    t = json.loads(json.dumps(t))
    if k in ("i", "b", "f", "s", "y", "n", "o"):
        return g_atom(rng)
    if k in ("T", "L"):
        op = rng.randrange(4)
        if op == 0:
            return ["L" if k == "T" else "T", t[1]]
        if op == 1 and len(t[1]) >= 2:
            i, j = rng.sample(range(len(t[1])), 2)
            t[1][i], t[1][j] = t[1][j], t[1][i]
            return t
        if op == 2 and t[1]:
            t[1].pop(rng.randrange(len(t[1])))
            return t
        t[1].insert(rng.randint(0, len(t[1])), g_atom(rng))
        return t
    if k == "Q":
        op = rng.randrange(3)
        if op == 0:
            t[1] = None if t[1] is not None else len(t[2]) + 1
            return t
        if op == 1:
            return ["L", t[2]]
        t[2].insert(0, g_atom(rng))
        if t[1] is not None:
            t[1] += 1
        return t
    if k == "B":
        op = rng.randrange(2)
        if op == 0:
            return ["y", [x[1] for x in t[1]]]
        t[1].append(["i", 0])
        return t
    if k == "A":
        ints = t[1] in ARRAY_INT_CODES
        op = rng.randrange(3)
        if op == 0:
            t[1] = rng.choice([c for c in (ARRAY_INT_CODES if ints else ARRAY_FLOAT_CODES) if c != t[1]])
            return t
        if op == 1:
            return ["L", t[2]]
        t[2].append(["i", 1] if ints else ["f", 4])
        return t
    if k == "N":
        _, masked, dt, shape, items = t[:5]
        op = rng.randrange(5)
        n = len(items)
        if op == 0:  # other dtype, same data
            if dt in INT_DTYPES:
                t[2] = rng.choice([d for d in INT_DTYPES if d != dt])
                return t
            if dt in FLOAT_DTYPES:
                t[2] = rng.choice([d for d in FLOAT_DTYPES if d != dt])
                return t
            if dt.startswith("<U"):
                t[2] = "<U5"
                return t
            return None
        if op == 1:  # other shape, same data
            alts = [s for s in ([n], [1, n], [n, 1], [2, n // 2] if n % 2 == 0 else [n], [n // 2, 2] if n % 2 == 0 else [n])
                    if s != shape]
            if n == 1:
                alts += [s for s in ([], [1], [1, 1]) if s != shape]
            if alts:
                t[3] = rng.choice(alts)
                return t
            return None
        if op == 2 and n >= 2:
            i, j = rng.sample(range(n), 2)
            items[i], items[j] = items[j], items[i]
            return t
        if op == 3 and not masked:  # ndarray vs nested list / flat list
            return ["L", items] if dt != "|O" else None
        if op == 4 and masked and n:
            j = rng.randrange(n)
            items[j] = ["m"] if items[j][0] != "m" else (["i", 1] if dt in INT_DTYPES else ["m"])
            return t
        return None
    if k in ("S", "F"):
        op = rng.randrange(3)
        if op == 0:
            return ["F" if k == "S" else "S", t[1]]
        if op == 1 and t[1]:
            t[1].pop(rng.randrange(len(t[1])))
            return t
        if op == 2:
            return ["L" if k == "S" else "T", t[1]]
        return None
    if k in ("D", "O", "E", "C"):
        f = 2 if k == "E" else 1
        pairs = t[f]
        op = rng.randrange(6)
        if op == 0:  # other mapping kind, same items
            alts = ["D", "O", "E"] + (["C"] if all(b[0] == "i" for _, b in pairs) else [])
            nk = rng.choice([a for a in alts if a != k])
            return ["E", rng.choice(FACTORIES), pairs] if nk == "E" else [nk, pairs]
        if op == 1 and pairs:
            pairs.pop(rng.randrange(len(pairs)))
            return t
        if op == 2 and k == "O" and len(pairs) >= 2:
            i, j = rng.sample(range(len(pairs)), 2)
            pairs[i], pairs[j] = pairs[j], pairs[i]
            return t
        if op == 3 and k == "E":
            t[1] = rng.choice([x for x in FACTORIES if x != t[1]])
            return t
        if op == 4 and pairs:
            j = rng.randrange(len(pairs))
            pairs[j][1] = ["i", rng.choice([9, -1, -2, -pairs[j][1][1] if pairs[j][1][0] == "i" and pairs[j][1][1] else 5])] if k == "C" else ["s", "changed"]
            return t
        if op == 5 and len(pairs) >= 2 and k != "C":  # swap two values
            i, j = rng.sample(range(len(pairs)), 2)
            pairs[i][1], pairs[j][1] = pairs[j][1], pairs[i][1]
            return t
        return None
    if k == "SR":
        _, name, dt, idx, vals = t
        op = rng.randrange(5)
        if op == 0 and len(idx) >= 2:  # reordered index (same label -> value map)
            i, j = rng.sample(range(len(idx)), 2)
            idx[i], idx[j] = idx[j], idx[i]
            vals[i], vals[j] = vals[j], vals[i]
            return t
        if op == 1 and dt == "<i8":
            return ["SR", name, "<f8", idx, [["f", 4 * x[1]] for x in vals]]
        if op == 2:
            t[1] = ["s", "other"]
            return t
        if op == 3 and vals and dt == "<i8":
            vals[0] = ["i", vals[0][1] + 1]
            return t
        if op == 4 and len(idx) >= 2:  # duplicate label
            idx[1] = idx[0]
            return t
        return None
    if k == "DF":
        _, cols, idx = t
        op = rng.randrange(4)
        if op == 0:
            t[2] = [["i", x[1] + 10] if x[0] == "i" else x for x in idx]
            return t
        if op == 1 and len(cols) >= 2:
            cols.reverse()
            return t
        if op == 2 and cols[0][1] == "<i8":
            cols[0][1] = "<f8"
            cols[0][2] = [["f", 4 * x[1]] for x in cols[0][2]]
            return t
        if op == 3 and cols[0][2] and cols[0][1] == "<i8":
            cols[0][2][0] = ["i", cols[0][2][0][1] + 1]
            return t
        return None
    return None


def near_miss(rng, v):
    for _ in range(8):
        path = rng.choice(_paths(v))
        new = mutate_node(rng, _get(v, path))
        if new is not None:
            w = _set(v, path, new)
            try:
                build(w)
            except Exception:  # noqa: BLE001
                continue
            return w
    return None


def _i(*xs):
    return [["i", x] for x in xs]


LOOKALIKES = [
    (["L", _i(1, 2)], ["T", _i(1, 2)]),
    (["L", _i(1, 2)], ["L", _i(2, 1)]),
    (["L", [["L", _i(1, 2)]]], ["L", [["T", _i(1, 2)]]]),
    (["T", [["L", _i(1)], ["i", 2]]], ["T", [["T", _i(1)], ["i", 2]]]),
    (["D", [[["i", 1], ["i", 2]]]], ["O", [[["i", 1], ["i", 2]]]]),
    (["D", [[["i", 1], ["i", 2]]]], ["E", None, [[["i", 1], ["i", 2]]]]),
    (["D", [[["i", 1], ["i", 2]]]], ["C", [[["i", 1], ["i", 2]]]]),
    (["E", "int", [[["i", 1], ["i", 2]]]], ["E", "list", [[["i", 1], ["i", 2]]]]),
    (["E", "int", []], ["E", None, []]),
    (["D", [[["i", 1], ["s", "a"]], [["i", 2], ["s", "b"]]]], ["D", [[["i", 2], ["s", "b"]], [["i", 1], ["s", "a"]]]]),
    (["O", [[["i", 1], ["s", "a"]], [["i", 2], ["s", "b"]]]], ["O", [[["i", 2], ["s", "b"]], [["i", 1], ["s", "a"]]]]),
    (["D", [[["i", 1], ["s", "a"]], [["i", 2], ["s", "b"]]]], ["D", [[["i", 1], ["s", "b"]], [["i", 2], ["s", "a"]]]]),
    (["D", [[["s", "a"], ["L", _i(1)]]]], ["D", [[["s", "a"], ["T", _i(1)]]]]),
    (["D", []], ["L", []]),
    (["D", []], ["S", []]),
    (["L", []], ["T", []]),
    (["S", _i(1, 2)], ["F", _i(1, 2)]),
    (["S", _i(1, 2, 3)], ["S", _i(3, 2, 1)]),
    (["S", _i(1, 2)], ["L", _i(1, 2)]),
    (["S", [["s", "a"], ["s", "b"]]], ["S", [["s", "b"], ["s", "a"]]]),
    (["L", [["F", [["s", "a"], ["s", "b"]]]]], ["L", [["F", [["s", "b"], ["s", "a"]]]]]),
    (["L", [["F", _i(1, 2)]]], ["L", [["S", _i(1, 2)]]]),
    (["i", 1], ["b", 1]), (["i", 1], ["f", 4]), (["b", 1], ["f", 4]), (["i", 0], ["b", 0]), (["i", 1], ["s", "1"]),
    (["L", [["i", 1]]], ["L", [["b", 1]]]), (["L", [["i", 1]]], ["L", [["f", 4]]]), (["L", [["i", 1]]], ["L", [["s", "1"]]]),
    (["S", [["i", 1], ["i", 2]]], ["S", [["b", 1], ["f", 8]]]),
    (["D", [[["i", 1], ["i", 5]]]], ["D", [[["b", 1], ["i", 5]]]]),
    (["s", "a"], ["y", [97]]), (["L", [["s", "a"]]], ["L", [["y", [97]]]]),
    (["y", [97, 98]], ["B", _i(97, 98)]), (["B", _i(97, 98)], ["T", _i(97, 98)]), (["B", _i(97, 98)], ["L", _i(97, 98)]),
    (["n"], ["L", []]), (["L", [["n"]]], ["L", []]), (["L", [["n"]]], ["L", [["i", 0]]]),
    (["Q", None, _i(1, 2)], ["Q", 2, _i(1, 2)]), (["Q", 2, _i(1, 2)], ["Q", 3, _i(1, 2)]),
    (["Q", None, _i(1, 2)], ["L", _i(1, 2)]), (["Q", None, _i(1, 2)], ["Q", None, _i(2, 1)]),
    (["Q", None, [["n"]]], ["Q", None, []]), (["Q", 1, [["i", 1]]], ["Q", None, _i(1, 1)]),
    (["A", "i", _i(1, 2)], ["A", "l", _i(1, 2)]), (["A", "i", _i(1, 2)], ["L", _i(1, 2)]),
    (["A", "i", _i(1, 2)], ["A", "i", _i(2, 1)]), (["A", "d", [["f", 4]]], ["A", "f", [["f", 4]]]),
    (["A", "i", _i(1)], ["A", "d", [["f", 4]]]),
    (["N", 0, "<i8", [2], _i(1, 2)], ["N", 0, "<i4", [2], _i(1, 2)]),
    (["N", 0, "<i8", [2], _i(1, 2)], ["N", 0, "<f8", [2], [["f", 4], ["f", 8]]]),
    (["N", 0, "<i8", [2], _i(1, 2)], ["N", 0, "<i8", [1, 2], _i(1, 2)]),
    (["N", 0, "<i8", [2], _i(1, 2)], ["N", 0, "<i8", [2, 1], _i(1, 2)]),
    (["N", 0, "<i8", [2, 3], _i(1, 2, 3, 4, 5, 6)], ["N", 0, "<i8", [3, 2], _i(1, 2, 3, 4, 5, 6)]),
    (["N", 0, "<i8", [2, 2], _i(1, 2, 3, 4)], ["N", 0, "<i8", [2, 2], _i(1, 3, 2, 4)]),
    (["N", 0, "<i8", [], _i(3)], ["N", 0, "<i8", [1], _i(3)]), (["N", 0, "<i8", [], _i(3)], ["i", 3]),
    (["N", 0, "<i8", [2], _i(1, 2)], ["L", _i(1, 2)]), (["N", 0, "<i8", [2], _i(1, 2)], ["T", _i(1, 2)]),
    (["N", 0, "<i8", [0], []], ["N", 0, "<f8", [0], []]), (["N", 0, "<i8", [0], []], ["N", 0, "<i8", [0, 2], []]),
    (["N", 0, "|b1", [2], [["b", 1], ["b", 0]]], ["N", 0, "<i8", [2], _i(1, 0)]),
    (["N", 0, "<U1", [2], [["s", "a"], ["s", "b"]]], ["N", 0, "<U2", [2], [["s", "a"], ["s", "b"]]]),
    (["N", 0, "<U1", [2], [["s", "a"], ["s", "b"]]], ["N", 0, "|O", [2], [["s", "a"], ["s", "b"]]]),
    (["N", 0, "|O", [2], [["L", _i(1)], ["L", _i(2, 3)]]], ["N", 0, "|O", [2], [["L", _i(1)], ["L", _i(2, 3)]]]),
    (["N", 0, "|O", [2], [["L", _i(1)], ["L", _i(2, 3)]]], ["N", 0, "|O", [2], [["T", _i(1)], ["L", _i(2, 3)]]]),
    (["N", 0, "|O", [1], [["D", [[["i", 1], ["i", 2]]]]]], ["N", 0, "|O", [1], [["O", [[["i", 1], ["i", 2]]]]]]),
    (["N", 0, "|O", [2], _i(1, 2)], ["N", 0, "<i8", [2], _i(1, 2)]),
    (["N", 1, "<i8", [3], [["i", 1], ["m"], ["i", 3]]], ["N", 1, "<i8", [3], [["i", 1], ["m"], ["i", 3]]]),
    (["N", 1, "<i8", [3], [["i", 1], ["m"], ["i", 3]]], ["N", 1, "<i8", [3], [["i", 1], ["i", 2], ["i", 3]]]),
    (["N", 1, "<i8", [2], _i(1, 2)], ["N", 0, "<i8", [2], _i(1, 2)]),
    (["C", [[["s", "a"], ["i", 2]]]], ["C", [[["s", "a"], ["i", 2]], [["s", "b"], ["i", 0]]]]),
    (["C", [[["s", "a"], ["i", 0]]]], ["C", []]),
    (["C", [[["s", "a"], ["i", 2]], [["s", "b"], ["i", 1]]]], ["C", [[["s", "b"], ["i", 1]], [["s", "a"], ["i", 2]]]]),
    (["C", [[["s", "a"], ["i", 2]], [["s", "b"], ["i", -1]]]], ["C", [[["s", "a"], ["i", 2]], [["s", "b"], ["i", -3]]]]),
    (["C", [[["s", "a"], ["i", 2]], [["s", "b"], ["i", -1]]]], ["C", [[["s", "a"], ["i", 2]]]]),
    (["C", [[["s", "a"], ["i", -2]]]], ["C", []]), (["C", [[["s", "a"], ["i", -2]]]], ["C", [[["s", "a"], ["i", 2]]]]),
    (["C", [[["s", "a"], ["i", 2]], [["s", "b"], ["i", -1]]]], ["C", [[["s", "b"], ["i", -1]], [["s", "a"], ["i", 2]]]]),
    (["L", [["C", [[["i", 1], ["i", -1]]]]]], ["L", [["C", []]]]),
    (["D", [[["s", "k"], ["C", [[["s", "a"], ["i", 1]], [["s", "b"], ["i", -1]]]]]]], ["D", [[["s", "k"], ["C", [[["s", "a"], ["i", 1]]]]]]]),
    (["S", [["i", 1], ["s", "a"]]], ["S", [["s", "a"], ["i", 1]]]),
    (["D", [[["i", 1], ["L", _i(1)]], [["s", "a"], ["L", _i(2)]]]], ["D", [[["s", "a"], ["L", _i(2)]], [["i", 1], ["L", _i(1)]]]]),
    (["S", [["n"], ["i", 1]]], ["S", [["i", 1], ["n"]]]),
    (["S", [["T", [["i", 1], ["s", "a"]]], ["T", _i(1, 2)]]], ["S", [["T", _i(1, 2)], ["T", [["i", 1], ["s", "a"]]]]]),
    (["S", [["T", _i(1, 2)], ["T", _i(1, 3)]]], ["S", [["T", _i(1, 3)], ["T", _i(1, 2)]]]),
    (["D", [[["F", _i(1)], ["s", "a"]], [["F", _i(2)], ["s", "b"]]]], ["D", [[["F", _i(2)], ["s", "b"]], [["F", _i(1)], ["s", "a"]]]]),
    (["S", [["F", _i(1)], ["F", _i(2)], ["F", _i(3)]]], ["S", [["F", _i(3)], ["F", _i(1)], ["F", _i(2)]]]),
    (["S", [["F", _i(1)], ["F", _i(1, 2)]]], ["S", [["F", _i(1, 2)], ["F", _i(1)]]]),
    (["SR", ["n"], "<i8", [["s", "a"], ["s", "b"]], _i(1, 2)], ["SR", ["n"], "<i8", [["s", "b"], ["s", "a"]], _i(2, 1)]),
    (["SR", ["n"], "<i8", _i(0, 1), _i(1, 2)], ["SR", ["n"], "<f8", _i(0, 1), [["f", 4], ["f", 8]]]),
    (["SR", ["n"], "<i8", _i(0, 1), _i(1, 2)], ["SR", ["s", "x"], "<i8", _i(0, 1), _i(1, 2)]),
    (["SR", ["n"], "<i8", _i(0, 1), _i(1, 2)], ["SR", ["n"], "<i8", _i(0, 1), _i(1, 2)]),
    (["SR", ["n"], "<i8", _i(0, 0), _i(1, 2)], ["SR", ["n"], "<i8", _i(0), _i(2)]),
    (["SR", ["n"], "<i8", _i(0, 1), _i(1, 2)], ["D", [[["i", 0], ["i", 1]], [["i", 1], ["i", 2]]]]),
    (["DF", [[["s", "A"], "<i8", _i(1, 2)]], _i(0, 1)], ["DF", [[["s", "A"], "<i8", _i(1, 2)]], _i(5, 6)]),
    (["DF", [[["s", "A"], "<i8", _i(1, 2)], [["s", "B"], "<i8", _i(3, 4)]], _i(0, 1)],
     ["DF", [[["s", "B"], "<i8", _i(3, 4)], [["s", "A"], "<i8", _i(1, 2)]], _i(0, 1)]),
    (["DF", [[["s", "A"], "<i8", _i(1, 2)]], _i(0, 1)], ["DF", [[["s", "A"], "<f8", [["f", 4], ["f", 8]]]], _i(0, 1)]),
    (["DF", [[["s", "A"], "<i8", _i(1, 2)]], _i(0, 1)], ["DF", [[["s", "A"], "<i8", _i(1, 2)]], _i(0, 1)]),
    (["DF", [[["s", "A"], "<i8", _i(1, 2)]], _i(0, 1)], ["D", [[["s", "A"], ["L", _i(1, 2)]]]]),
    (["o", "OpqA", 1, 1], ["o", "OpqA", 1, 1]), (["o", "OpqA", 1, 1], ["o", "OpqB", 1, 1]),
    (["o", "OpqA", 1, 1], ["o", "OpqA", 2, 1]), (["L", [["o", "OpqA", 1, 1]]], ["T", [["o", "OpqA", 1, 1]]]),
    (["L", [["o", "OpqA", 1, 1]]], ["L", [["o", "OpqA", 1, 1]]]),
    (["o", "OpqA", 1, 0], ["o", "OpqA", 1, 0]),
    # forged keys (outside `supported`: class objects / the marker string are not argument types of the property)
    (["T", [["s", "__CONVERTED__"], ["t", "list"], ["T", _i(1, 2)]]], ["L", _i(1, 2)]),
    (["T", [["s", "__CONVERTED__"], ["t", "dict"], ["T", []]]], ["D", []]),
    (["t", "int"], ["t", "int"]), (["t", "int"], ["t", "float"]), (["L", [["t", "int"]]], ["L", [["t", "list"]]]),
]


def _seeded(t):
    if t[0] == "s":
        return t[1] != ""
    if t[0] == "y":
        return len(t[1]) > 0
    return any(_seeded(x) for x in children(t))


def _seed_dep(t):
    """Python mirror of Run_C15.seed_dep on VALUES (a frozenset survives into the key unchanged; sets are sorted)."""
    return _has(t, lambda u: u[0] == "F" and len(u[1]) >= 2 and any(_seeded(x) for x in u[1]))


_S4 = [["s", "a"], ["s", "b"], ["s", "ab"], ["s", "B"], ["s", "a b"], ["s", "1"]]
PICKLE_WITNESSES = [
    ["L", [["F", _S4], ["i", 1]]],                      # [frozenset({'a','b','ab','B','a b','1'}), 1]
    ["D", [[["F", _S4], ["i", 1]]]],                    # {frozenset({...}): 1}
    ["L", [["T", [["F", _S4]]]]],
    ["S", _S4], ["L", [["S", _S4]]],                    # sets are sorted: stable
    ["L", [["F", _i(1, 2, 3, 7, 255)]]],                # frozenset of ints: stable
    ["D", [[["s", "a"], ["i", 1]], [["s", "b"], ["i", 2]]]],
]


def _nd(dt, shape, items, layout="C"):
    return ["N", 0, dt, shape, items, layout]


_A32 = _nd("<i8", [3, 2], _i(0, 1, 2, 3, 4, 5))
_A23 = _nd("<i8", [2, 3], _i(0, 1, 2, 3, 4, 5))
_A212 = _nd("<f8", [2, 1, 2], [["f", 0], ["f", 4], ["f", 8], ["f", 12]])
_A22 = _nd("<i4", [2, 2], _i(1, 2, 3, 4))
_AO = _nd("|O", [2, 2], [["L", _i(1)], ["i", 2], ["n"], ["s", "a"]])
LAYOUT_BASES = [_A32, _A23, _A212, _A22, _AO, _nd("|b1", [2, 3], [["b", 1], ["b", 0], ["b", 0], ["b", 1], ["b", 1], ["b", 0]]),
                _nd("<U1", [3, 2], [["s", x] for x in "abcdef"]), _nd("<i8", [4], _i(1, 2, 3, 4))]

REKEYS = [  # (v, path, new sub-value): x = build(v); key; mutate the object at path in place; key again
    (_nd("<f8", [3], [["f", 4], ["f", 8], ["f", 12]]), (), _nd("<f8", [3], [["f", 400], ["f", 8], ["f", 12]])),      # x[0] = 100.
    (_nd("<f8", [3], [["f", 4], ["f", 8], ["f", 12]]), (), _nd("<f8", [3], [["f", 8], ["f", 16], ["f", 24]])),      # x *= 2
    (_nd("<f8", [3], [["f", 4], ["f", 8], ["f", 12]]), (), _nd("<f8", [3], [["f", 4], ["f", 8], ["f", 12]])),       # x[:] = x
    (_nd("<i8", [2, 2], _i(0, 0, 0, 0)), (), _nd("<i8", [2, 2], _i(1, 1, 1, 1))),                                    # y += 1
    (_nd("<i8", [3, 2], _i(0, 1, 2, 3, 4, 5), "T"), (), _nd("<i8", [3, 2], _i(0, 1, 2, 3, 4, 9), "T")),
    (_nd("<i8", [3, 2], _i(0, 1, 2, 3, 4, 5), "F"), (), _nd("<i8", [3, 2], _i(5, 4, 3, 2, 1, 0), "F")),
    (_nd("|b1", [2], [["b", 1], ["b", 0]]), (), _nd("|b1", [2], [["b", 0], ["b", 0]])),
    (_nd("<U1", [2], [["s", "a"], ["s", "b"]]), (), _nd("<U1", [2], [["s", "b"], ["s", "b"]])),
    (["D", [[["s", "cfg"], ["L", [_nd("<i8", [2, 2], _i(0, 0, 0, 0)), ["s", "a"]]]]]], (1, 0, 1, 1, 0),
     _nd("<i8", [2, 2], _i(1, 1, 1, 1))),                                                                           # {'cfg': [y, 'a']}; y += 1
    (["L", [_nd("<f4", [2], [["f", 4], ["f", 4]])]], (1, 0), _nd("<f4", [2], [["f", 20], ["f", 20]])),               # d[:] = 5
    (["T", [["i", 1], _nd("<i8", [2], _i(1, 2))]], (1, 1), _nd("<i8", [2], _i(2, 1))),
    (_AO, (), _nd("|O", [2, 2], [["L", _i(1)], ["i", 3], ["n"], ["s", "a"]])),
    (_AO, (4, 0), ["L", _i(1, 2)]),                                                                                  # list inside an object array
    (["L", _i(1, 2, 3)], (), ["L", _i(1, 2)]), (["L", _i(1, 2, 3)], (), ["L", _i(3, 2, 1)]), (["L", _i(1, 2)], (), ["L", _i(1, 2)]),
    (["L", [["L", _i(1)], ["i", 2]]], (1, 0), ["L", _i(1, 5)]),
    (["D", [[["i", 1], ["s", "a"]], [["i", 2], ["s", "b"]]]], (), ["D", [[["i", 2], ["s", "b"]], [["i", 1], ["s", "a"]]]]),
    (["D", [[["i", 1], ["s", "a"]], [["i", 2], ["s", "b"]]]], (), ["D", [[["i", 1], ["s", "a"]], [["i", 2], ["s", "c"]]]]),
    (["O", [[["i", 1], ["s", "a"]], [["i", 2], ["s", "b"]]]], (), ["O", [[["i", 2], ["s", "b"]], [["i", 1], ["s", "a"]]]]),
    (["E", "int", [[["s", "a"], ["i", 1]]]], (), ["E", "int", [[["s", "a"], ["i", 2]]]]),
    (["C", [[["s", "a"], ["i", 1]]]], (), ["C", [[["s", "a"], ["i", 2]]]]),
    (["S", _i(1, 2, 3)], (), ["S", _i(3, 2)]), (["S", _i(1, 2, 3)], (), ["S", _i(3, 1, 2)]),
    (["B", _i(97, 98)], (), ["B", _i(97, 99)]), (["Q", 3, _i(1, 2)], (), ["Q", 3, _i(1, 2, 3)]),
    (["Q", None, _i(1, 2)], (), ["Q", None, _i(2, 1)]), (["A", "i", _i(1, 2)], (), ["A", "i", _i(1, 3)]),
]


def _call(pos, kw=()):
    """The value (args, kwargs) of one call f(*pos, **kw); kw = [[name, value], ..] in call order."""
    return ["T", [["T", list(pos)], ["D", [[["s", nm], v] for nm, v in kw]]]]


def _uncall(call):
    return list(call[1][0][1]), [[k[1], v] for k, v in call[1][1][1]]


_HALF = ["L", [["f", 2], ["f", 2]]]
MEMO_SEQS = [
    [_call([["i", 3]], [["y", ["i", 2]]]), _call([["i", 3], ["T", [["s", "y"], ["i", 2]]]])],           # f(3, y=2); f(3, ('y', 2))
    [_call([["L", _i(1, 2)]], [["w", _HALF]]), _call([["L", _i(1, 2)], ["T", [["s", "w"], _HALF]]])],     # unhashable payloads
    [_call([["i", 1]], [["b", ["i", 3]], ["a", ["i", 2]]]),
     _call([["i", 1], ["T", [["s", "a"], ["i", 2]]], ["T", [["s", "b"], ["i", 3]]]]),
     _call([["i", 1], ["T", [["s", "a"], ["i", 2]]]], [["b", ["i", 3]]])],
    [_call([], [["x", ["i", 1]]]), _call([["T", [["s", "x"], ["i", 1]]]])],
    [_call([["i", 1], ["i", 2]]), _call([["i", 1]], [["y", ["i", 2]]]), _call([], [["x", ["i", 1]], ["y", ["i", 2]]]),
     _call([], [["y", ["i", 2]], ["x", ["i", 1]]]), _call([["i", 1], ["i", 2]])],
    [_call([["T", _i(1, 2)]]), _call(_i(1, 2)), _call([["L", _i(1, 2)]])],
    [_call([], [["x", ["D", [[["s", "k"], ["L", _i(1)]]]]]]), _call([["T", [["s", "x"], ["D", [[["s", "k"], ["L", _i(1)]]]]]]]),
     _call([["D", [[["s", "x"], ["D", [[["s", "k"], ["L", _i(1)]]]]]]]])],
    [_call([["N", 0, "<i8", [2], _i(1, 2)]], [["y", ["S", _i(1, 2)]]]),
     _call([["N", 0, "<i8", [2], _i(1, 2)], ["T", [["s", "y"], ["S", _i(2, 1)]]]])],
    [_call([]), _call([["T", []]]), _call([["D", []]]), _call([], [["x", ["n"]]]), _call([["n"]])],
]


def _num(a):
    return {"i": lambda: 4 * a[1], "b": lambda: 4 * int(bool(a[1])), "f": lambda: a[1]}.get(a[0], lambda: None)()


def _same(v, w):
    """Python mirror of Model.PyVal.py_same on value trees.  Used ONLY to route a failing case to the right known
    finding id (the oracle is the Coq spec_ok)."""
    kv, kw = v[0], w[0]
    nv, nw = _num(v), _num(w)
    if nv is not None or nw is not None:
        return nv is not None and nw is not None and nv == nw
    if kv != kw:
        return False
    if kv in ("s", "y", "t"):
        return v[1] == w[1]
    if kv in ("n", "m"):
        return True
    if kv == "o":
        return v[1] == w[1] and v[2] == w[2]
    def seq(a, b):
        return len(a) == len(b) and all(_same(x, y) for x, y in zip(a, b))
    def sub(a, b):
        return all(any(_same(x, y) for y in b) for x in a)
    if kv in ("T", "L", "B"):
        return seq(v[1], w[1])
    if kv in ("Q", "A"):
        return v[1] == w[1] and seq(v[2], w[2])
    if kv == "N":
        return v[1:4] == w[1:4] and seq(v[4], w[4])
    if kv in ("S", "F"):
        return len(v[1]) == len(w[1]) and sub(v[1], w[1])
    if kv == "O":
        return len(v[1]) == len(w[1]) and all(_same(a, c) and _same(b, d) for (a, b), (c, d) in zip(v[1], w[1]))
    if kv in ("D", "E"):
        pv, pw = (v[2], w[2]) if kv == "E" else (v[1], w[1])
        if kv == "E" and v[1] != w[1]:
            return False
        return len(pv) == len(pw) and all(any(_same(a, c) and _same(b, d) for c, d in pw) for a, b in pv)
    if kv == "C":
        def half(p, q):
            return all(any(_same(a, c) and _same(b, d) for c, d in q)
                       or (_num(b) == 0 and not any(_same(a, c) for c, _ in q)) for a, b in p)
        return half(v[1], w[1]) and half(w[1], v[1])
    if kv in ("SR", "DF"):
        return v == w
    return False


def _size(t):
    return 1 + sum(_size(x) for x in children(t)) + (
        sum(_size(a) + _size(b) for a, b in (t[2] if t[0] == "E" else t[1])) if t[0] in ("D", "O", "E", "C") else 0)


def generate(rng, tier, mult):
    n = (350 if tier == "quick" else 9000) * mult
    cases = []

    def pair(v, w, how, fp=True):
        cases.append({"kind": "pair", "fp": fp, "v": v, "w": w, "how": how})

    for v, w in LOOKALIKES:
        pair(v, w, "look")
        pair(w, v, "look")
    pair(["o", "OpqA", 1, 1], ["o", "OpqA", 1, 1], "look", fp=False)
    pair(["L", [["o", "OpqA", 1, 1]]], ["L", _i(1)], "look", fp=False)
    for _ in range(n):
        depth = rng.choice([1, 2, 2, 3])
        stream = rng.random()
        mixed = 0.5 if stream < 0.12 else 0.0
        exotic = 0.9 if 0.12 <= stream < 0.24 else 0.0
        v = g_val(rng, depth, mixed=mixed, exotic=exotic)
        if _size(v) > 40:
            continue
        fp = rng.random() >= 0.04
        pair(v, reorder(rng, v), "equal", fp)
        pair(v, reorder(rng, v, subst=0.3), "equal-subst", fp)
        w = near_miss(rng, v)
        if w is not None:
            pair(v, w, "near", fp)
            w2 = near_miss(rng, reorder(rng, w))
            if w2 is not None:
                pair(v, w2, "near2", fp)
        if rng.random() < 0.3:
            u = g_val(rng, rng.choice([0, 1, 2]), mixed=mixed, exotic=exotic)
            if _size(u) <= 40:
                pair(v, u, "indep", fp)
    # longer sorts (5..12 elements): exercise count_run / binary insertion of the sorted() model, also with a PARTIAL
    # order (frozenset keys: the result then depends on the exact comparison sequence of CPython's algorithm)
    for _ in range(max(10, n // 6)):
        m = rng.randint(5, 12)
        r = rng.random()
        if r < 0.35:
            keys = g_unique(rng, m, lambda: ["i", rng.randrange(-20, 40)] if rng.random() < 0.7 else ["f", rng.randrange(-30, 90)])
        elif r < 0.5:
            keys = g_unique(rng, m, lambda: ["s", "".join(rng.choice("abB1 ") for _ in range(rng.randint(0, 3)))])
        elif r < 0.85:
            keys = g_unique(rng, m, lambda: ["F", [["i", x] for x in range(1, 5) if rng.random() < 0.4]])
        else:
            keys = g_unique(rng, m, lambda: ["T", [["i", rng.randrange(3)], rng.choice([["i", rng.randrange(3)], ["n"], ["f", 2]])]])
        if rng.random() < 0.5:
            v = ["D", [[a, ["i", j]] for j, a in enumerate(keys)]]
        else:
            v = ["S", keys]
        pair(v, reorder(rng, v), "bigsort")
        w = near_miss(rng, v)
        if w is not None:
            pair(v, w, "bigsort-near")
    # ---- memory layouts of ndarrays: to_hashable must depend on the logical content only
    for a in LAYOUT_BASES:
        for lay in ("F", "T", "S", "R"):
            b = a[:5] + [lay]
            pair(a, b, "layout-equal")
            pair(b, a, "layout-equal")
            pair(["L", [["D", [[["s", "w"], a]]]]], ["L", [["D", [[["s", "w"], b]]]]], "layout-equal")
        for lay in ("T", "F"):
            tw = memory_twin(a, lay)
            if tw is not None:
                pair(a, tw, "layout-twin")          # different content, the same bytes in memory
                pair(tw, a, "layout-twin")
                pair(["L", [["D", [[["s", "w"], a]]]]], ["L", [["D", [[["s", "w"], tw]]]]], "layout-twin")
    for _ in range(max(20, n // 4)):
        a = g_ndarray(rng)
        while len(a[3]) < 2 or a[3][0] * a[3][-1] < 2:
            a = g_ndarray(rng)
        a = a + ["C"]
        wrap_ = rng.choice([None, "L", "D", "T"])
        def w_(x, wrap_=wrap_):
            return x if wrap_ is None else ["D", [[["s", "k"], x]]] if wrap_ == "D" else [wrap_, [x, ["i", 1]]]
        pair(w_(a), w_(relayout(rng, a)), "layout-equal")
        pair(w_(relayout(rng, a)), w_(relayout(rng, a)), "layout-equal")
        tw = memory_twin(a, rng.choice(["T", "F"]))
        if tw is not None:
            pair(w_(relayout(rng, a)), w_(tw), "layout-twin")
        nm = near_miss(rng, a)
        if nm is not None:
            pair(relayout(rng, a), relayout(rng, nm), "layout-near")
    # ---- masked arrays whose mask is numpy.ma.nomask (no mask argument / mask=False / shrink_mask()) vs an explicit
    #      all-False mask: the same value; and different data under nomask: different values
    def _ma(dt, shape, items, mode):
        return ["N", 1, dt, shape, items, mode]

    def _wraps(x):
        return [x, ["L", [x, ["i", 1]]], ["D", [[["s", "k"], x]]], ["T", [["s", "a"], ["L", [x]]]]]

    ma_bases = [("<i8", [3], _i(1, 2, 3), _i(1, 5, 6)), ("<f8", [2, 2], [["f", 4], ["f", 8], ["f", 12], ["f", 16]],
                                                          [["f", 4], ["f", 2], ["f", 12], ["f", 16]]),
                ("<i8", [], _i(5), _i(6)), ("<i4", [2, 1, 2], _i(1, 2, 3, 4), _i(1, 2, 4, 3)),
                ("|b1", [2], [["b", 1], ["b", 0]], [["b", 1], ["b", 1]]), ("<U1", [2], [["s", "a"], ["s", "b"]], [["s", "a"], ["s", "c"]])]
    for dt, shape, items, other in ma_bases:
        for mode in ("N", "F", "S"):
            for a, b, c, d in zip(_wraps(_ma(dt, shape, items, mode)), _wraps(_ma(dt, shape, items, "A")),
                                  _wraps(_ma(dt, shape, other, mode)), _wraps(["N", 0, dt, shape, items])):
                pair(a, b, "nomask-equal")      # nomask vs explicit all-False mask
                pair(b, a, "nomask-equal")
                pair(a, c, "nomask-differ")     # both nomask, other data
                pair(a, d, "nomask-vs-ndarray")  # MaskedArray vs plain ndarray of the same content
    for _ in range(max(12, n // 8)):
        a = g_ndarray(rng, masked=True)
        while a[2] == "|O" or any(x[0] == "m" for x in a[4]) or not a[4]:
            a = g_ndarray(rng, masked=True)
        pair(a, relayout(rng, a), "nomask-equal")
        nm = near_miss(rng, a[:5] + ["N"])
        if nm is not None:
            pair(a[:5] + [rng.choice(["N", "F", "S"])], nm, "nomask-near")
    # ---- re-keying after an in-place modification of the same object
    def rekey(v, path, new):
        cases.append({"kind": "rekey", "v": v, "w": _set(v, tuple(path), new), "path": list(path)})

    for v, path, new in REKEYS:
        rekey(v, path, new)
    tries = 0
    want = max(40, n // 2)
    made = 0
    while made < want and tries < 20 * want:
        tries += 1
        if rng.random() < 0.4:
            v = g_ndarray(rng)
            if rng.random() < 0.5:
                v = rng.choice([["L", [v, ["s", "a"]]], ["D", [[["s", "k"], v]]], ["T", [["i", 0], v]], ["Q", None, [v]]])
        else:
            v = g_val(rng, rng.choice([1, 2, 2, 3]))
        if _size(v) > 30:
            continue
        v = relayout(rng, v)
        cand = [p for p in _paths(v) if _get(v, p)[0] in INPLACE_KINDS]
        if not cand:
            continue
        path = rng.choice(cand)
        new = inplace_variant(rng, _get(v, path))
        if new is None:
            continue
        try:
            build(_set(v, path, new))
        except Exception:  # noqa: BLE001
            continue
        rekey(v, path, new)
        made += 1
    # memoize call sequences: each call is the value (args, kwargs); repeated / look-alike arguments, and
    # positional / keyword look-alikes (f(3, y=2) vs f(3, ('y', 2)); f(1, 2) vs f(1, y=2) vs f(x=1, y=2))
    for calls in MEMO_SEQS:
        cases.append({"kind": "memo", "args": calls})
        cases.append({"kind": "memo", "args": calls[::-1]})
    for _ in range(max(6, n // 8)):
        base = g_val(rng, rng.choice([1, 2]))
        if _size(base) > 25:
            continue
        args = [base]
        for _ in range(rng.randint(2, 5)):
            r = rng.random()
            src = rng.choice(args)
            if r < 0.4:
                args.append(reorder(rng, src, subst=0.2))
            elif r < 0.8:
                args.append(near_miss(rng, src) or g_val(rng, 1))
            else:
                args.append(g_val(rng, 1))
        cases.append({"kind": "memo", "args": [_call([a]) for a in args]})
    for v, w in LOOKALIKES[:40]:
        cases.append({"kind": "memo", "args": [_call([v]), _call([w]), _call([v]), _call([w])]})
    for _ in range(max(12, n // 5)):
        pos = [g_val(rng, rng.choice([0, 0, 1, 2])) for _ in range(rng.randint(0, 3))]
        names = rng.sample(["x", "y", "w", "a"], rng.randint(0, 3))
        kw = [[nm, g_val(rng, rng.choice([0, 0, 1, 2]))] for nm in names]
        if sum(_size(x) for x in pos) + sum(_size(x) for _, x in kw) > 30:
            continue
        calls = [_call(pos, kw)]
        for _ in range(rng.randint(2, 5)):
            p0, k0 = _uncall(rng.choice(calls))
            op = rng.randrange(7)
            if op == 0 and k0:      # keywords -> trailing positional (name, value) tuples, sorted by name
                calls.append(_call(p0 + [["T", [["s", nm], v]] for nm, v in sorted(k0, key=lambda kv: kv[0])], []))
            elif op == 1 and k0:    # ... only the last keyword
                calls.append(_call(p0 + [["T", [["s", k0[-1][0]], k0[-1][1]]]], k0[:-1]))
            elif op == 2 and p0 and len(k0) < 5:    # last positional -> keyword
                nm = rng.choice([x for x in ["x", "y", "w", "a", "z", "v"] if x not in [q for q, _ in k0]])
                calls.append(_call(p0[:-1], k0 + [[nm, p0[-1]]]))
            elif op == 3 and k0:    # a keyword -> positional
                calls.append(_call(p0 + [k0[0][1]], k0[1:]))
            elif op == 4 and len(k0) >= 2:  # same keywords, other order (an equal call)
                calls.append(_call([reorder(rng, x) for x in p0], k0[::-1]))
            elif op == 5 and (p0 or k0):    # near miss of one value
                if p0 and (not k0 or rng.random() < 0.5):
                    j = rng.randrange(len(p0))
                    calls.append(_call(p0[:j] + [near_miss(rng, p0[j]) or g_atom(rng)] + p0[j + 1:], k0))
                else:
                    j = rng.randrange(len(k0))
                    calls.append(_call(p0, k0[:j] + [[k0[j][0], near_miss(rng, k0[j][1]) or g_atom(rng)]] + k0[j + 1:]))
            else:                   # the whole argument list as ONE positional / the kwargs as one dict argument
                calls.append(_call([["T", p0]] if rng.random() < 0.5 else p0 + [["D", [[["s", nm], v] for nm, v in k0]]], []))
        cases.append({"kind": "memo", "args": calls})
    # DiskCache file names (_pickle_key of the key) in two interpreters (fixed witnesses with seed dependent frozensets
    # plus every fourth pair value)
    for v in PICKLE_WITNESSES:
        cases.append({"kind": "pickle", "v": v})
    for j, c in enumerate(list(cases)):
        if c["kind"] == "pair" and c["fp"] and j % 4 == 0:
            cases.append({"kind": "pickle", "v": c["v"]})
    # all keys of this run in ONE second interpreter
    reqs = []
    for c in cases:
        if c["kind"] == "pickle":
            reqs.append((True, c["v"]))
        if c["kind"] == "pair":
            reqs += [(c["fp"], c["v"]), (c["fp"], c["w"])]
    _second_batch(reqs)
    return cases


# ------------------------------------------------------------------ evidence helpers
def _kinds(t, acc):
    acc.add(t[0])
    for x in children(t):
        _kinds(x, acc)
    if t[0] in ("D", "O", "E", "C"):
        for a, b in (t[2] if t[0] == "E" else t[1]):
            _kinds(a, acc)
            _kinds(b, acc)
    return acc


def nontrivial_key(c):
    if c["kind"] == "rekey":
        return ("rekey", c["v"], c["w"], c["path"])
    if c["kind"] == "pickle":
        return ("pickle", c["v"]) if c["v"][0] not in ("i", "b", "f", "s", "y", "n") else None
    if c["kind"] == "memo":
        return ("memo", c["args"]) if len(c["args"]) >= 2 else None
    atoms = ("i", "b", "f", "s", "y", "n", "t", "m", "o")
    if c["v"][0] not in atoms or c["w"][0] not in atoms:
        return ("pair", c["fp"], c["v"], c["w"])
    return None


def distribution(c):
    if c["kind"] == "rekey":
        return {"kind": "rekey", "mutated": _get(c["v"], c["path"])[0], "nested": bool(c["path"])}
    if c["kind"] == "pickle":
        return {"kind": "pickle", "top_v": c["v"][0]}
    if c["kind"] == "memo":
        return {"kind": "memo", "calls": len(c["args"]), "kwargs": any(x[1][1][1] for x in c["args"])}
    return {"kind": "pair", "how": c.get("how", "?"), "top_v": c["v"][0], "fp": c["fp"]}


# ------------------------------------------------------------------ known findings: one stable id per class of failing input
def _has(t, pred):
    if pred(t):
        return True
    if any(_has(x, pred) for x in children(t)):
        return True
    if t[0] in ("D", "O", "E", "C"):
        return any(_has(a, pred) or _has(b, pred) for a, b in (t[2] if t[0] == "E" else t[1]))
    return False


def _sorted_keys(t):
    """Lists of values that to_hashable passes to sorted()."""
    if t[0] == "S":
        return t[1]
    if t[0] in ("D", "C"):
        return [a for a, _ in t[1]]
    if t[0] == "E":
        return [a for a, _ in t[2]]
    return None


def _cls(a):
    return {"i": "num", "b": "num", "f": "num", "s": "str", "y": "bytes"}.get(a[0], a[0])


def _feat_pandas(v):
    return _has(v, lambda t: t[0] in ("SR", "DF"))


def _feat_masked(v):
    return _has(v, lambda t: t[0] == "N" and t[1] and any(x[0] == "m" for x in t[4]))


def _feat_partial(v):
    def partial(t):
        ks = _sorted_keys(t)
        return ks is not None and len(ks) >= 2 and any(
            k[0] == "F" or (k[0] == "T" and _has(k, lambda u: u[0] == "F")) for k in ks)
    return _has(v, partial)


def _feat_incomparable(v):
    def incomparable(t):
        ks = _sorted_keys(t)
        return ks is not None and len(ks) >= 2 and (
            len({_cls(k) for k in ks}) > 1 or any(k[0] in ("T", "n", "F") for k in ks))
    return _has(v, incomparable)


def _feat_zero_count(v):
    return _has(v, lambda t: t[0] == "C" and any(b == ["i", 0] for _, b in t[1]))


def _is_ok(side):
    return isinstance(side, list) and len(side) == 2 and side[0] == "ok"


def finding_id(c, impl_obs, kind):
    """The one remaining known finding, matched by its own mechanism only:
         pandas-key-loses-index-dtype-order : DIFFERENT values (one holding a Series/DataFrame) with EQUAL keys
       (in memo cases: a stored result returned for another call that involves pandas values).
       Anything else is a new violation."""
    k = c["kind"]
    if k == "pickle":
        return None
    if k == "memo":
        return "pandas-key-loses-index-dtype-order" if any(_feat_pandas(x) for x in c["args"]) else None
    v, w = c["v"], c["w"]
    if not isinstance(impl_obs, list):
        return None
    if k == "rekey":
        if len(impl_obs) != 2 or impl_obs[0] != ["bool", 1]:
            return None
        collide = impl_obs[1] == ["bool", 1]
    else:
        if len(impl_obs) != 5:
            return None
        sv, sw, eq = impl_obs[0], impl_obs[1], impl_obs[2]
        if not (_is_ok(sv) and _is_ok(sw)) or sv[1] != ["bool", 1] or sw[1] != ["bool", 1]:
            return None
        if impl_obs[3] != ["bool", 1] or impl_obs[4] != ["bool", 1]:
            return None
        collide = eq == ["bool", 1]
    if collide and not _same(v, w) and (_feat_pandas(v) or _feat_pandas(w)):
        return "pandas-key-loses-index-dtype-order"
    return None


def shrink(c):
    out = []
    if c["kind"] == "rekey":
        return out
    if c["kind"] == "pickle":
        return [{"kind": "pickle", "v": _set(c["v"], path, ["i", 0])} for path in _paths(c["v"])[1:]]
    if c["kind"] == "memo":
        for j in range(len(c["args"])):
            if len(c["args"]) > 2:
                out.append({"kind": "memo", "args": c["args"][:j] + c["args"][j + 1:]})
        return out
    for side in ("v", "w"):
        t = c[side]
        for path in _paths(t)[1:]:
            # replace a sub-value by a scalar, or drop it from its parent list
            d = dict(c)
            d[side] = _set(t, path, ["i", 0])
            out.append(d)
    return out
