"""C16 - Type-annotation validation agrees with subtype compatibility.

Cases
  {"kind": "pair", "a": T, "b": T}                       is_type_compatible(a, b)
  {"kind": "pipe", "fs": [F...], "v": bool, "pat": str}  Pipeline([...], validate_type_annotations=v)
Types T are JSON trees
  ["cls", name] | ["any"] | ["noann"] | ["union", [T..]] | ["gen", origin, [T..]] | ["bare", origin]
  | ["annot", T, [["s", str] | ["i", int] ..]] | ["array", T] | ["var", name, T | None, [T..]] | ["unres", str]
and are turned into the REAL typing objects (int, list[int], Union[...], Annotated[...], pipefunc.typing.Array[T],
TypeVar(...), pipefunc.typing.NoAnnotation, pipefunc.typing.Unresolvable) by `build`; `decode` reads the object back
and every case is checked to round-trip (so the tree the Coq side sees is the object Python built).
Functions F are {"out": name, "ret": T, "params": [[name, T | None]..], "ms": None | [[[name, axes]..], [[name, axes]..]]}.
"""
from __future__ import annotations

import collections
import itertools
import warnings

from ..coqlit import Err, Ok, cbool, clist, copt, cpair, cstr, cz

PROP = "C16"
RUN = "Run_C16"
THEOREMS = "Props/C16.v"
ANCHORS = [
    ("pipefunc/typing.py",
     ["_resolve_type", "_check_identical_or_any", "_is_union", "_handle_union_types", "_extract_array_element_type",
      "_compare_annotated_types", "_compare_single_annotated_type", "_compare_generic_type_origins",
      "_compare_generic_type_args", "_handle_generic_types", "is_type_compatible", "_is_typevar_compatible",
      "is_object_array_type", "Unresolvable", "safe_get_type_hints", "Array"]),
    ("pipefunc/_pipeline/_validation.py",
     ["validate_consistent_type_annotations", "_axis_is_reduced", "_mapspec_is_generated",
      "_mapspec_with_internal_shape"]),
    ("pipefunc/_pipefunc.py", ["PipeFunc.parameter_annotations", "PipeFunc.output_annotation"]),
]
RULE = ("ordered pairs of annotations: ALL pairs over an enumerated set of depth<=1 annotations (quick: reduced alphabet; "
        "thorough: full alphabet plus all pairs over a depth<=2 set), random pairs of depth<=3, related pairs (B obtained "
        "from A by one widening/narrowing/arity/union-order/Optional/bare edit); 2-3 function pipelines wiring such "
        "annotations directly, element-wise, through full/partial reductions and internal shapes, validation on/off, "
        "shuffled add order; non-trivial = pair with a != b and a constructor of depth>=1 on either side, or any pipeline; "
        "distinct by the whole case")
ASSUMPTIONS = [
    "issubclass is the fixed lattice bool<=int, OrderedDict<=dict (all other classes unrelated)",
    "no forward references inside annotations (an undefined name gives Unresolvable, which is in the grammar); "
    "no variadic tuple[T, ...], no empty argument list tuple[()], no NDArray aliases",
    "unions are as typing builds them: flattened, duplicate-free, >= 2 members; Annotated is not nested directly "
    "in Annotated/around Array (typing flattens it)",
    "pipelines: single-output functions, user-written MapSpecs only (no auto-generated MapSpec)",
]
TRUSTED = ["Model/Ty.v + Model/TyPipe.v mirror pipefunc/typing.py and _pipeline/_validation.py by hand; "
           "tie = per-run differential execution on real typing objects / real Pipeline construction",
           "typing/numpy object construction and read-back (harness build/decode round trip is asserted per case)"]

CLS_NAMES = ["int", "bool", "float", "str", "bytes", "None", "object_"]
ORG_NAMES = ["list", "set", "tuple", "dict", "odict", "ndarray", "dtype"]
CLS_LIT = {"int": "tI", "bool": "tB", "float": "tF", "str": "tS", "bytes": "tY", "None": "tN", "object_": "tO"}
ORG_LIT = {"list": "oL", "set": "oS", "tuple": "oT", "dict": "oD", "odict": "oO", "ndarray": "oN", "dtype": "oY"}

_ENV = {}


def _env():
    if not _ENV:
        import typing

        import numpy as np

        import pipefunc.typing as pt

        _ENV.update(
            typing=typing, np=np, pt=pt,
            CLS={"int": int, "bool": bool, "float": float, "str": str, "bytes": bytes, "None": type(None),
                 "object_": np.object_},
            ORG={"list": list, "set": set, "tuple": tuple, "dict": dict, "odict": collections.OrderedDict,
                 "ndarray": np.ndarray, "dtype": np.dtype},
            tv={},
        )
        _ENV["CLS_INV"] = {v: k for k, v in _ENV["CLS"].items()}
        _ENV["ORG_INV"] = {v: k for k, v in _ENV["ORG"].items()}
        _ENV["ND"] = np.ndarray[typing.Any, np.dtype[np.object_]]
    return _ENV


# ------------------------------------------------------------------ real objects <-> trees
def build(t):
    e = _env()
    ty = e["typing"]
    k = t[0]
    if k == "cls":
        return e["CLS"][t[1]]
    if k == "any":
        return ty.Any
    if k == "noann":
        return e["pt"].NoAnnotation
    if k == "union":
        return ty.Union[tuple(build(x) for x in t[1])]
    if k == "gen":
        return e["ORG"][t[1]][tuple(build(x) for x in t[2])]
    if k == "bare":
        return e["ORG"][t[1]]
    if k == "annot":
        return ty.Annotated[(build(t[1]), *[m[1] for m in t[2]])]
    if k == "array":
        return e["pt"].Array[build(t[1])]
    if k == "var":
        key = repr(t)
        if key not in e["tv"]:  # one TypeVar object per distinct spec: identity == equality of specs
            kw = {} if t[2] is None else {"bound": build(t[2])}
            e["tv"][key] = ty.TypeVar(t[1], *[build(c) for c in t[3]], **kw)
        return e["tv"][key]
    if k == "unres":
        return e["pt"].Unresolvable(t[1])
    raise ValueError(t)


def decode(o):
    """Read a typing object back into a tree (None if it is outside the grammar)."""
    e = _env()
    ty, pt = e["typing"], e["pt"]
    if isinstance(o, pt.Unresolvable):
        return ["unres", o.type_str]
    if isinstance(o, ty.TypeVar):
        b = None if o.__bound__ is None else decode(o.__bound__)
        return ["var", o.__name__, b, [decode(c) for c in o.__constraints__]]
    if o is ty.Any:
        return ["any"]
    if o is pt.NoAnnotation:
        return ["noann"]
    origin = ty.get_origin(o)
    if origin is None:
        if o in e["CLS_INV"]:
            return ["cls", e["CLS_INV"][o]]
        if o in e["ORG_INV"]:
            return ["bare", e["ORG_INV"][o]]
        return None
    args = ty.get_args(o)
    if origin is ty.Union:
        return ["union", [decode(x) for x in args]]
    if origin is ty.Annotated:
        p, *meta = args
        if len(meta) == 1 and ty.get_origin(meta[0]) is pt.ArrayElementType and p == e["ND"]:
            return ["array", decode(ty.get_args(meta[0])[0])]
        ms = []
        for m in meta:
            if isinstance(m, str):
                ms.append(["s", m])
            elif isinstance(m, int) and not isinstance(m, bool):
                ms.append(["i", m])
            else:
                return None
        return ["annot", decode(p), ms]
    if origin in e["ORG_INV"]:
        if not args:
            return None
        return ["gen", e["ORG_INV"][origin], [decode(x) for x in args]]
    return None


def _canon(t):
    """Sort union members: typing caches Annotated[...]/Optional[...] by `==`, and unions compare as sets, so
    Annotated[Union[int, str], 5] may come back as the earlier-built Annotated[Union[str, int], 5]."""
    if t is None:
        return None
    k = t[0]
    if k == "union":
        return ["union", sorted((_canon(x) for x in t[1]), key=repr)]
    if k == "gen":
        return ["gen", t[1], [_canon(x) for x in t[2]]]
    if k == "annot":
        return ["annot", _canon(t[1]), t[2]]
    if k == "array":
        return ["array", _canon(t[1])]
    if k == "var":
        return ["var", t[1], _canon(t[2]), [_canon(x) for x in t[3]]]
    return t


def roundtrips(t) -> bool:
    try:
        d = decode(build(t))
        return d is not None and _canon(d) == _canon(t) and _n_union_members(d) == _n_union_members(t)
    except Exception:  # noqa: BLE001
        return False


def _n_union_members(t):
    k = t[0]
    if k == "union":
        return len(t[1]) + sum(_n_union_members(x) for x in t[1])
    if k == "gen":
        return sum(_n_union_members(x) for x in t[2])
    if k in ("annot", "array"):
        return _n_union_members(t[1])
    return 0


def lit(t) -> str:
    k = t[0]
    if k == "cls":
        return CLS_LIT[t[1]]
    if k == "any":
        return "tA"
    if k == "noann":
        return "tM"
    if k == "union":
        return "(U " + clist([lit(x) for x in t[1]]) + ")"
    if k == "gen":
        return f"(G {ORG_LIT[t[1]]} " + clist([lit(x) for x in t[2]]) + ")"
    if k == "bare":
        return f"(Ba {ORG_LIT[t[1]]})"
    if k == "annot":
        ms = [f"(mS {cstr(m[1])})" if m[0] == "s" else f"(mI {cz(m[1])})" for m in t[2]]
        return f"(An {lit(t[1])} " + clist(ms) + ")"
    if k == "array":
        return f"(Ar {lit(t[1])})"
    if k == "var":
        return f"(V {cstr(t[1])} {copt(t[2], lit)} " + clist([lit(c) for c in t[3]]) + ")"
    if k == "unres":
        return f"(Un {cstr(t[1])})"
    raise ValueError(t)


def _axes_lit(ax):
    return clist([copt(a, cstr) for a in ax])


def _ms_lit(ms):
    if ms is None:
        return "None"
    i, o = ms
    f = lambda l: clist([cpair(cstr(n), _axes_lit(ax)) for n, ax in l])  # noqa: E731
    return f"(Some (Ms {f(i)} {f(o)}))"


def _fn_lit(f):
    ps = clist([cpair(cstr(n), copt(t, lit)) for n, t in f["params"]])
    return f"(Fn {cstr(f['out'])} {lit(f['ret'])} {ps} {_ms_lit(f['ms'])})"


def emit_case(c) -> str:
    if c["kind"] == "pair":
        return f"(CPair {lit(c['a'])} {lit(c['b'])})"
    return f"(CPipe {clist([_fn_lit(f) for f in c['fs']])} {cbool(c['v'])})"


# ------------------------------------------------------------------ implementation driver
def _ms_str(ms):
    i, o = ms
    arr = lambda n, ax: n + "[" + ", ".join(":" if a is None else a for a in ax) + "]"  # noqa: E731
    left = ", ".join(arr(n, ax) for n, ax in i) if i else "..."
    return left + " -> " + ", ".join(arr(n, ax) for n, ax in o)


def _annotation(t):
    # an undefined name as string annotation is what yields Unresolvable through safe_get_type_hints
    return t[1] if t[0] == "unres" else build(t)


def make_pipefunc(f):
    from pipefunc import PipeFunc

    ns = {}
    exec(f"def {f['out']}({', '.join(n for n, _ in f['params'])}):\n    return 1\n", ns)  # noqa: S102
    fn = ns[f["out"]]
    ann = {n: _annotation(t) for n, t in f["params"] if t is not None}
    if f["ret"] != ["noann"]:
        ann["return"] = _annotation(f["ret"])
    fn.__annotations__ = ann
    return PipeFunc(fn, output_name=f["out"], mapspec=None if f["ms"] is None else _ms_str(f["ms"]))


def _construct(c, validate):
    import contextlib
    import io

    from pipefunc import Pipeline

    with contextlib.redirect_stdout(io.StringIO()):
        Pipeline([make_pipefunc(f) for f in c["fs"]], validate_type_annotations=validate)


class CaseError(Exception):
    """The generated case is not what the harness meant to build (a harness bug, never an observation)."""


def run_impl(c):
    _env()
    with warnings.catch_warnings():
        warnings.simplefilter("ignore")
        if c["kind"] == "pair":
            if not (roundtrips(c["a"]) and roundtrips(c["b"])):
                raise CaseError(f"type tree does not round-trip: {c}")
            a, b = build(c["a"]), build(c["b"])
            try:
                r = _ENV["pt"].is_type_compatible(a, b)
            except Exception as e:  # noqa: BLE001
                return Err(e)
            return Ok(bool(r)) if isinstance(r, bool) else Ok(["not-a-bool", repr(type(r).__name__)])
        for f in c["fs"]:
            for t in [f["ret"]] + [t for _, t in f["params"] if t is not None]:
                if t[0] != "unres" and not roundtrips(t):
                    raise CaseError(f"type tree does not round-trip: {t}")
        try:
            _construct(c, False)
        except Exception as e:  # noqa: BLE001
            if c["v"]:
                raise CaseError(f"pipeline is structurally invalid ({type(e).__name__}: {e}): {c}") from e
            return Err(e)
        if not c["v"]:
            return Ok(None)
        try:
            _construct(c, True)
        except Exception as e:  # noqa: BLE001
            return Err(e)
        return Ok(None)


# ------------------------------------------------------------------ type generators
def C(n):
    return ["cls", n]


INT, BOOL, FLOAT, STR, BYTES, NONE, OBJ = (C(n) for n in CLS_NAMES)
ANY, NOANN = ["any"], ["noann"]
NDOBJ = ["gen", "ndarray", [ANY, ["gen", "dtype", [OBJ]]]]
M5, MS, MD = [["i", 5]], [["s", "m"]], [["s", "some doc"], ["i", 1]]


def U(*xs):
    return ["union", list(xs)]


def G(o, *xs):
    return ["gen", o, list(xs)]


def B(o):
    return ["bare", o]


def AN(t, m=None):
    return ["annot", t, m or M5]


def AR(t):
    return ["array", t]


def OPT(t):
    return U(t, NONE)


TV_FREE = ["var", "T", None, []]
TV_FREE2 = ["var", "S", None, []]
TV_INT = ["var", "Tb", INT, []]
TV_STR = ["var", "Ts", STR, []]
TV_LIST = ["var", "Tl", G("list", INT), []]
TV_UNION = ["var", "Tu", U(INT, STR), []]
TV_CON = ["var", "Tc", None, [INT, STR]]
TV_CON2 = ["var", "Tk", None, [G("list", INT), BOOL, NONE]]
TVARS = [TV_FREE, TV_FREE2, TV_INT, TV_STR, TV_LIST, TV_UNION, TV_CON, TV_CON2]

ATOMS_SMALL = [INT, BOOL, STR, NONE, ANY, NOANN, B("list"), TV_FREE]
ATOMS_FULL = [INT, BOOL, FLOAT, STR, BYTES, NONE, ANY, NOANN, B("list"), B("tuple"), B("dict"), B("odict"),
              B("ndarray"), B("set"), TV_FREE, TV_INT, TV_CON, ["unres", "Foo"]]


def depth(t):
    k = t[0]
    if k == "union":
        return 1 + max(depth(x) for x in t[1])
    if k == "gen":
        return 1 + max(depth(x) for x in t[2])
    if k in ("annot", "array"):
        return 1 + depth(t[1])
    return 0


def has_var(t):
    k = t[0]
    if k == "var":
        return True
    if k == "union":
        return any(has_var(x) for x in t[1])
    if k == "gen":
        return any(has_var(x) for x in t[2])
    if k in ("annot", "array"):
        return has_var(t[1])
    return False


def contains(t, kind):
    k = t[0]
    if k == kind:
        return True
    if k == "union":
        return any(contains(x, kind) for x in t[1])
    if k == "gen":
        return any(contains(x, kind) for x in t[2])
    if k in ("annot", "array"):
        return contains(t[1], kind)
    if k == "var":
        return (t[2] is not None and contains(t[2], kind)) or any(contains(x, kind) for x in t[3])
    return False


def _dedup(ts):
    seen, out = set(), []
    for t in ts:
        r = repr(t)
        if r not in seen:
            seen.add(r)
            out.append(t)
    return out


def level_up(atoms, pair_atoms, union_atoms):
    """All annotations with exactly one constructor over the given argument sets."""
    out = []
    for a in atoms:
        out += [G("list", a), G("set", a), G("tuple", a), AR(a)]
        if a[0] not in ("annot", "array"):
            out += [AN(a), AN(a, MS)]
        if a[0] != "union" and a != NONE:
            out.append(OPT(a))
    for a, b in itertools.product(pair_atoms, repeat=2):
        out += [G("tuple", a, b), G("dict", a, b)]
    for a, b in itertools.permutations(union_atoms, 2):
        if a[0] != "union" and b[0] != "union":
            out.append(U(a, b))
    out += [G("odict", STR, INT), NDOBJ, G("tuple", INT, STR, INT), U(INT, STR, NONE)]
    return [t for t in _dedup(out) if roundtrips(t)]


def enum_quick():
    d1 = level_up([INT, BOOL, STR, ANY, B("list"), TV_FREE], [INT, BOOL, STR], [INT, BOOL, STR])
    return _dedup(ATOMS_SMALL + [TV_INT, TV_CON] + d1)


def enum_full():
    d1 = level_up(ATOMS_FULL, [INT, BOOL, STR, ANY, NOANN, TV_FREE], [INT, BOOL, STR, FLOAT, ANY, B("list"), TV_FREE])
    return _dedup(ATOMS_FULL + TVARS + d1)


def enum_depth2():
    base = [INT, BOOL, STR, U(INT, STR), U(STR, INT), OPT(INT), G("list", INT), G("list", BOOL), G("tuple", INT, STR),
            G("tuple", INT), B("list"), AN(INT), AN(U(INT, STR)), AR(INT), AR(BOOL), ANY, TV_INT]
    d2 = level_up(base, [INT, U(INT, STR), G("list", INT), AN(BOOL), AR(INT)],
                  [INT, NONE, G("list", INT), AN(STR), AR(INT), AN(U(INT, STR)), G("tuple", INT, STR)])
    return _dedup(base + d2)


def rand_atom(rng):
    r = rng.random()
    if r < 0.55:
        return rng.choice([INT, INT, BOOL, FLOAT, STR, STR, BYTES, NONE])
    if r < 0.65:
        return ANY
    if r < 0.69:
        return NOANN
    if r < 0.82:
        return B(rng.choice(["list", "set", "tuple", "dict", "odict", "ndarray"]))
    if r < 0.83:
        return NDOBJ
    return rng.choice(TVARS)


def rand_type(rng, d, top=True):
    """A random annotation of depth <= d, in the normal form typing produces."""
    for _ in range(50):
        t = _rand_type(rng, d, top)
        if roundtrips(t):
            return t
    return INT


def _rand_type(rng, d, top=False):
    if d == 0 or rng.random() < 0.22:
        if top and rng.random() < 0.03:
            return ["unres", rng.choice(["Foo", "Bar"])]
        return rand_atom(rng)
    r = rng.random()
    sub = lambda: _rand_type(rng, d - 1)  # noqa: E731
    if r < 0.22:
        n = rng.choice([2, 2, 2, 3])
        ms = []
        for _ in range(n):
            m = sub()
            ms += m[1] if m[0] == "union" else [m]
        return ["union", ms]
    if r < 0.30:
        m = sub()
        return U(*(m[1] if m[0] == "union" else [m]), NONE)
    if r < 0.42:
        return G(rng.choice(["list", "list", "set"]), sub())
    if r < 0.56:
        n = rng.choice([1, 2, 2, 2, 3])
        return G("tuple", *[sub() for _ in range(n)])
    if r < 0.66:
        return G(rng.choice(["dict", "dict", "odict"]), sub(), sub())
    if r < 0.69:  # unnatural arity
        return G(rng.choice(["list", "dict", "set", "odict"]), *[sub() for _ in range(rng.choice([1, 2, 3]))])
    if r < 0.71:
        return G("ndarray", rng.choice([ANY, INT]), G("dtype", rng.choice([OBJ, OBJ, INT])))
    if r < 0.84:
        m = sub()
        if m[0] in ("annot", "array"):
            return m
        return AN(m, rng.choice([M5, MS, MD, [["i", 6]]]))
    if r < 0.95:
        return AR(sub())
    b = sub()
    if rng.random() < 0.5:
        return ["var", rng.choice(["T", "R"]), b, []]
    c = sub()
    return ["var", rng.choice(["T", "R"]), None, [b, c]]


def edits(rng, t, d=0):
    """One-step relatives of t (look-alikes): arity, union order / membership, Optional, bare vs parametrised,
    widening / narrowing of a leaf, Annotated / Array wrapping."""
    out = []
    k = t[0]
    if k == "cls":
        out += [ANY, OPT(t), U(t, STR) if t != STR else U(t, INT), AN(t), AN(t, MS), AR(t), NOANN, TV_FREE, TV_INT,
                TV_CON]
        if t == BOOL:
            out.append(INT)
        if t == INT:
            out += [BOOL, FLOAT]
    if k == "union":
        ms = t[1]
        out.append(["union", list(reversed(ms))])
        out.append(["union", ms + [BYTES]])
        if len(ms) > 2:
            out.append(["union", ms[:-1]])
        else:
            out += [ms[0], ms[1]]
        out += [AN(t), AN(t, MD)]
    if k == "gen":
        o, args = t[1], t[2]
        out.append(B(o))
        out.append(["gen", o, args + [INT]])
        if len(args) > 1:
            out.append(["gen", o, args[:-1]])
            out.append(["gen", o, list(reversed(args))])
        if o == "odict":
            out.append(["gen", "dict", args])
        if o == "dict":
            out.append(["gen", "odict", args])
        if o == "list":
            out.append(["gen", "set", args])
        out += [AN(t), AR(t), OPT(t)]
    if k == "bare":
        out += [G(t[1], INT), G(t[1], INT, STR), ANY]
    if k == "annot":
        out += [t[1], ["annot", t[1], MS if t[2] != MS else M5], ["annot", t[1], t[2] + [["i", 7]]], OPT(t)]
    if k == "array":
        out += [NDOBJ, B("ndarray"), t[1], G("list", t[1]), AN(NDOBJ), OPT(t), AN(OPT(t))]
    if k == "var":
        out += [INT, STR, TV_FREE2] + ([t[2]] if t[2] is not None else []) + list(t[3])
    # recurse into one child
    if d < 3:
        if k == "union" or k == "gen":
            args = t[1] if k == "union" else t[2]
            i = rng.randrange(len(args))
            for e in edits(rng, args[i], d + 1)[:6]:
                new = args[:i] + [e] + args[i + 1:]
                out.append(["union", new] if k == "union" else ["gen", t[1], new])
        if k == "annot":
            out += [["annot", e, t[2]] for e in edits(rng, t[1], d + 1)[:6] if e[0] not in ("annot", "array")]
        if k == "array":
            out += [AR(e) for e in edits(rng, t[1], d + 1)[:6]]
    return [x for x in _dedup(out) if roundtrips(x)]


# ------------------------------------------------------------------ pipeline generator
I1 = ["i"]


def _f(out, ret, params, ms=None):
    return {"out": out, "ret": ret, "params": [list(p) for p in params], "ms": ms}


def pipe_patterns(a, b, pat):
    """Two functions y -> z where y returns `a` and z takes y annotated `b` (None = unannotated)."""
    if pat == "direct":
        return [_f("y", a, [("x", INT)]), _f("z", INT, [("y", b)])]
    if pat == "elementwise":
        return [_f("y", a, [("x", INT)], [[["x", ["i"]]], [["y", ["i"]]]]),
                _f("z", INT, [("y", b)], [[["y", ["i"]]], [["z", ["i"]]]])]
    if pat == "elementwise2d":
        return [_f("y", a, [("x", INT), ("w", None)], [[["x", ["i"]], ["w", ["j"]]], [["y", ["i", "j"]]]]),
                _f("z", INT, [("y", b)], [[["y", ["i", "j"]]], [["z", ["i", "j"]]]])]
    if pat == "reduce":
        return [_f("y", a, [("x", INT)], [[["x", ["i"]]], [["y", ["i"]]]]), _f("z", INT, [("y", b)])]
    if pat == "reduce_other_axis":
        return [_f("y", a, [("x", INT)], [[["x", ["i"]]], [["y", ["i"]]]]),
                _f("z", INT, [("y", b), ("w", INT)], [[["w", ["k"]]], [["z", ["k"]]]])]
    if pat == "reduce_partial":
        return [_f("y", a, [("x", INT), ("w", INT)], [[["x", ["i"]], ["w", ["j"]]], [["y", ["i", "j"]]]]),
                _f("z", INT, [("y", b)], [[["y", ["i", None]]], [["z", ["i"]]]])]
    if pat == "internal":
        return [_f("y", a, [("x", INT)], [[], [["y", ["i"]]]]),
                _f("z", INT, [("y", b)], [[["y", ["i"]]], [["z", ["i"]]]])]
    if pat == "internal_partial":
        return [_f("y", a, [("x", INT)], [[["x", ["i"]]], [["y", ["i", "j"]]]]), _f("z", INT, [("y", b)])]
    raise ValueError(pat)


PATTERNS = ["direct", "elementwise", "elementwise2d", "reduce", "reduce_other_axis", "reduce_partial", "internal",
            "internal_partial"]


def fanin(kinds, rets, anns):
    """h(y1, y2) with independent edge kinds: direct / elementwise / reduce."""
    fs, h_in = [], []
    for k, (kind, a) in enumerate(zip(kinds, rets), 1):
        ms = None if kind == "direct" else [[[f"x{k}", ["i"]]], [[f"y{k}", ["i"]]]]
        fs.append(_f(f"y{k}", a, [(f"x{k}", INT)], ms))
        if kind == "elementwise":
            h_in.append([f"y{k}", ["i"]])
    h_ms = [h_in, [["h", ["i"]]]] if h_in else None
    fs.append(_f("h", INT, [(f"y{k}", b) for k, b in enumerate(anns, 1)], h_ms))
    return fs


def chain(kind, a, b, c, d):
    """f -> g -> h: y returns a, g takes y: b and returns c, h takes g: d."""
    if kind == "direct-direct":
        return [_f("y", a, [("x", INT)]), _f("g", c, [("y", b)]), _f("h", INT, [("g", d)])]
    if kind == "map-map-reduce":
        return [_f("y", a, [("x", INT)], [[["x", ["i"]]], [["y", ["i"]]]]),
                _f("g", c, [("y", b)], [[["y", ["i"]]], [["g", ["i"]]]]), _f("h", INT, [("g", d)])]
    if kind == "map-reduce-direct":
        return [_f("y", a, [("x", INT)], [[["x", ["i"]]], [["y", ["i"]]]]),
                _f("g", c, [("y", b)]), _f("h", INT, [("g", d)])]
    if kind == "two-consumers":
        return [_f("y", a, [("x", INT)], [[["x", ["i"]]], [["y", ["i"]]]]),
                _f("g", INT, [("y", b)], [[["y", ["i"]]], [["g", ["i"]]]]), _f("h", INT, [("y", d)])]
    raise ValueError(kind)


CHAINS = ["direct-direct", "map-map-reduce", "map-reduce-direct", "two-consumers"]


def related_pair(rng, d):
    a = rand_type(rng, d, top=False)
    r = rng.random()
    if r < 0.2:
        return a, a
    es = edits(rng, a)
    if r < 0.75 and es:
        b = rng.choice(es)
        return (a, b) if rng.random() < 0.5 else (b, a)
    if r < 0.85:
        return a, AR(a)
    return a, rand_type(rng, d, top=False)


def gen_pipes(rng, n):
    out = []
    for q in range(n):
        v = rng.random() < 0.8
        r = rng.random()
        if r < 0.6:
            a, b = related_pair(rng, 2)
            pat = PATTERNS[q % len(PATTERNS)]
            if pat.startswith("reduce") and rng.random() < 0.6:
                b = rng.choice([AR(b), AR(a), b, AN(AR(a)), OPT(AR(b))])
                if not roundtrips(b):
                    b = AR(a)
            if rng.random() < 0.06:
                a = NOANN
            if rng.random() < 0.05:
                a = ["unres", "Foo"]
            if rng.random() < 0.05:
                b = None
            elif rng.random() < 0.03:
                b = ["unres", "Bar"]
            fs = pipe_patterns(a, b, pat)
        elif r < 0.8:
            kinds = [rng.choice(["direct", "elementwise", "reduce"]) for _ in range(2)]
            pairs = [related_pair(rng, 1) for _ in range(2)]
            anns = [AR(b) if k == "reduce" and rng.random() < 0.7 else b for k, (_, b) in zip(kinds, pairs)]
            fs = fanin(kinds, [a for a, _ in pairs], anns)
            pat = "fanin:" + "+".join(kinds)
        else:
            kind = rng.choice(CHAINS)
            (a, b), (c, d) = related_pair(rng, 1), related_pair(rng, 1)
            if kind == "map-map-reduce" and rng.random() < 0.7:
                d = AR(d)
            if kind in ("map-reduce-direct", "two-consumers") and rng.random() < 0.7:
                if kind == "two-consumers":
                    d = AR(d)
                else:
                    b = AR(b)
            fs = chain(kind, a, b, c, d)
            pat = "chain:" + kind
        if rng.random() < 0.5:
            rng.shuffle(fs)
        out.append({"kind": "pipe", "fs": fs, "v": v, "pat": pat})
    return out


CORNER_PAIRS = [
    (G("tuple", INT, STR), G("tuple", INT)), (G("tuple", INT), G("tuple", INT, STR)), (G("dict", STR, INT), G("dict", STR)),
    (AN(INT, MS), INT), (INT, AN(INT, MS)), (AN(INT, MD), AN(INT, MS)), (BOOL, AN(INT)), (INT, AN(BOOL)),
    (AN(U(INT, STR)), U(INT, STR)), (U(INT, STR), AN(U(INT, STR))), (U(AN(U(INT, STR)), BYTES), U(INT, STR, BYTES)),
    (AR(INT), AN(OPT(AR(STR)))), (AR(INT), AN(OPT(AR(INT)))), (AR(INT), OPT(AR(STR))), (AR(BOOL), AR(INT)),
    (NDOBJ, AR(INT)), (B("ndarray"), AR(INT)), (AR(INT), B("ndarray")), (AR(INT), NDOBJ), (AR(INT), G("list", INT)),
    (TV_STR, INT), (TV_FREE, INT), (G("list", TV_STR), G("list", INT)), (TV_CON, INT), (TV_CON, U(INT, STR)),
    (FLOAT, TV_CON), (INT, TV_CON), (U(INT, STR), TV_CON), (BOOL, TV_CON), (ANY, TV_FREE), (ANY, TV_INT), (ANY, INT),
    (INT, ANY), (NOANN, INT), (INT, NOANN), (U(INT, STR), U(STR, INT)), (G("list", U(INT, STR)), G("list", U(STR, INT))),
    (OPT(INT), U(INT, NONE)), (OPT(INT), INT), (INT, OPT(INT)), (NONE, OPT(INT)), (B("list"), G("list", INT)),
    (G("list", INT), B("list")), (G("odict", STR, INT), G("dict", STR, INT)), (G("dict", STR, INT), G("odict", STR, INT)),
    (B("odict"), G("dict", STR, INT)), (["unres", "Foo"], INT), (INT, ["unres", "Foo"]), (TV_INT, TV_INT), (TV_FREE, TV_FREE2),
    (G("list", NOANN), G("list", INT)), (AN(NDOBJ), AR(INT)), (AR(INT), AN(NDOBJ)), (AN(INT, MD), STR),
]


def generate(rng, tier, mult):
    cases = []
    pair = lambda a, b, src: {"kind": "pair", "a": a, "b": b, "src": src}  # noqa: E731
    for a, b in CORNER_PAIRS:
        cases.append(pair(a, b, "corner"))
    if tier == "quick":
        ts = enum_quick()
        n_rand, n_rel, n_pipe = 3000 * mult, 2500 * mult, 800 * mult
    else:
        ts = enum_full()
        n_rand, n_rel, n_pipe = 60000 * mult, 50000 * mult, 10000 * mult
    cases += [pair(a, b, "all-depth1") for a in ts for b in ts]
    if tier != "quick":
        t2 = enum_depth2()
        cases += [pair(a, b, "all-depth2") for a in t2 for b in t2]
    for _ in range(n_rand):
        d = rng.choice([1, 2, 2, 3, 3])
        cases.append(pair(rand_type(rng, d), rand_type(rng, d), "random"))
    for _ in range(n_rel):
        a, b = related_pair(rng, rng.choice([1, 2, 2, 3]))
        cases.append(pair(a, b, "related"))
    cases += gen_pipes(rng, n_pipe)
    return cases


def nontrivial_key(c):
    if c["kind"] == "pair":
        if c["a"] != c["b"] and max(depth(c["a"]), depth(c["b"])) >= 1:
            return ("pair", c["a"], c["b"])
        return None
    return ("pipe", c["fs"], c["v"])


def distribution(c):
    if c["kind"] == "pair":
        d = {"kind": "pair:" + c.get("src", "?"), "depth": max(depth(c["a"]), depth(c["b"]))}
        for k in ("union", "annot", "array", "var", "gen"):
            if contains(c["a"], k) or contains(c["b"], k):
                d["has_" + k] = 1
        return d
    return {"kind": "pipe", "pattern": c.get("pat", "?"), "validate": c["v"], "n_funcs": len(c["fs"])}


# ------------------------------------------------------------------ known findings
# Classification only (the verdict is Coq's spec_ok): a Python transcription of the reference, used to decide whether
# a failing case is explained by a listed finding.
def _cls_le(a, b):
    return a == b or (a == "bool" and b == "int")


def _org_le(a, b):
    return a == b or (a == "odict" and b == "dict")


def ref_sub(A, B):
    ka, kb = A[0], B[0]
    if kb in ("any", "noann", "unres") or ka in ("noann", "unres"):
        return True
    if ka == "union":
        return all(ref_sub(a, B) for a in A[1])
    if ka == "annot":
        return ref_sub(A[1], B)
    if ka == "var":
        if A[2] is not None:
            return ref_sub(A[2], B)
        if A[3]:
            return all(ref_sub(c, B) for c in A[3])
    if kb == "union":
        return any(ref_sub(A, b) for b in B[1])
    if kb == "annot":
        return ref_sub(A, B[1])
    if kb == "var":
        if B[2] is None and not B[3]:
            return True
        return (B[2] is not None and ref_sub(A, B[2])) or any(ref_sub(A, c) for c in B[3])
    if ka == "cls" and kb == "cls":
        return _cls_le(A[1], B[1])
    if ka in ("bare", "gen") and kb in ("bare", "gen"):
        if not _org_le(A[1], B[1]):
            return False
        if ka == "bare" or kb == "bare":
            return True
        return len(A[2]) == len(B[2]) and all(ref_sub(x, y) for x, y in zip(A[2], B[2]))
    if ka == "array" and kb == "array":
        return ref_sub(A[1], B[1])
    if ka == "array" and kb in ("gen", "bare"):
        return ref_sub(NDOBJ, B)
    if kb == "array" and ka in ("gen", "bare"):
        return ref_sub(A, NDOBJ)
    return False


def _vars_unknown(t):
    """TypeVars replaced by a missing annotation (= unknown): what 'a TypeVar source is always accepted' amounts to."""
    k = t[0]
    if k == "var":
        return NOANN
    if k == "union":
        return ["union", [_vars_unknown(x) for x in t[1]]]
    if k == "gen":
        return ["gen", t[1], [_vars_unknown(x) for x in t[2]]]
    if k == "annot":
        return ["annot", _vars_unknown(t[1]), t[2]]
    if k == "array":
        return ["array", _vars_unknown(t[1])]
    return t


def _is_obj_array(t):
    return t[0] == "array" or t == NDOBJ or (t[0] == "annot" and _is_obj_array(t[1]))


def _spec_edges(c):
    """(source, target, reduced, f) for every edge the property speaks about (mirrors TySpec.spec_edges)."""
    out = []
    for f in c["fs"]:
        for g in c["fs"]:
            for p, t in g["params"]:
                if p != f["out"] or t is None:
                    continue
                mapped = False
                if f["ms"] is not None:
                    spec = [ax for n, ax in f["ms"][1] if n == p]
                    if spec:
                        mapped = True
                        in_idx = {a for _, ax in f["ms"][0] for a in ax if a is not None}
                        if any(a is not None and a not in in_idx for a in spec[0]):
                            continue  # internal shape: no statement
                whole = True
                if g["ms"] is not None:
                    ax = [a for n, a in g["ms"][0] if n == p]
                    whole = (not ax) or (None in ax[0])
                red = mapped and whole and f["ret"][0] not in ("noann", "unres")
                out.append((["array", f["ret"]] if red else f["ret"], t, red, f))
    return out


def finding_id(c, impl_obs, kind):
    if c["kind"] == "pair":
        # accepted although the reference rejects, and the reference accepts once the TypeVars of the source are unknown
        if impl_obs == ["ok", ["bool", 1]] and has_var(c["a"]) and ref_sub(_vars_unknown(c["a"]), c["b"]):
            return "typevar-source-accepted"
        return None
    if not c["v"] or impl_obs not in (["ok", ["none"]], ["err", "TypeError"]):
        return None
    accepted = impl_obs == ["ok", ["none"]]
    edges = _spec_edges(c)
    unwrapped = [e for e in edges if e[2] and _is_obj_array(e[3]["ret"])]      # region of reduced-array-output-not-wrapped
    rest = [e for e in edges if not (e[2] and _is_obj_array(e[3]["ret"]))]
    if accepted:
        # every edge outside the regions must be compatible once TypeVar sources are unknown
        if not all(ref_sub(_vars_unknown(a), b) for a, b, _, _ in rest):
            return None
        if any(not ref_sub(a, b) for a, b, _, _ in unwrapped):
            return "reduced-array-output-not-wrapped"
        if any(has_var(a) and not ref_sub(a, b) for a, b, _, _ in rest):
            return "typevar-source-accepted"
        return None
    # rejected although every edge is compatible: only the unwrapped reduction can explain it
    if unwrapped and all(ref_sub(a, b) for a, b, _, _ in edges):
        return "reduced-array-output-not-wrapped"
    return None


def _children(t):
    k = t[0]
    if k == "union":
        return list(t[1])
    if k == "gen":
        return list(t[2])
    if k in ("annot", "array"):
        return [t[1]]
    if k == "var":
        return ([t[2]] if t[2] is not None else []) + list(t[3])
    return []


def _shrink_type(t):
    out = list(_children(t))
    k = t[0]
    if k == "union" and len(t[1]) > 2:
        out += [["union", t[1][:i] + t[1][i + 1:]] for i in range(len(t[1]))]
    if k in ("union", "gen"):
        args = t[1] if k == "union" else t[2]
        for i, x in enumerate(args):
            for y in _shrink_type(x):
                new = args[:i] + [y] + args[i + 1:]
                out.append(["union", new] if k == "union" else ["gen", t[1], new])
    if k == "annot":
        out += [["annot", y, t[2]] for y in _shrink_type(t[1]) if y[0] not in ("annot", "array")]
        if t[2] != M5:
            out.append(["annot", t[1], M5])
    if k == "array":
        out += [["array", y] for y in _shrink_type(t[1])]
    if k not in ("cls",) and t != INT:
        out.append(INT)
    return [x for x in _dedup(out) if roundtrips(x)]


def shrink(c):
    out = []
    if c["kind"] == "pair":
        for a in _shrink_type(c["a"]):
            out.append({"kind": "pair", "a": a, "b": c["b"], "src": "shrunk"})
        for b in _shrink_type(c["b"]):
            out.append({"kind": "pair", "a": c["a"], "b": b, "src": "shrunk"})
        return out
    for i, f in enumerate(c["fs"]):
        for r in _shrink_type(f["ret"]):
            fs = [dict(x) for x in c["fs"]]
            fs[i] = dict(f, ret=r)
            out.append(dict(c, fs=fs))
        for j, (p, t) in enumerate(f["params"]):
            if t is not None and t != INT:
                for r in _shrink_type(t):
                    fs = [dict(x) for x in c["fs"]]
                    ps = [list(x) for x in f["params"]]
                    ps[j] = [p, r]
                    fs[i] = dict(f, params=ps)
                    out.append(dict(c, fs=fs))
    return out
