"""development-time only: Model/TyOrig.v against the unrepaired pipefunc/typing.py (VERIF_REPO=<checkout of 8bc6eee>)."""
from .c16 import *  # noqa: F401,F403
from . import c16 as _c

PROP = "C16ORIG"
RUN = "Run_C16Orig"
THEOREMS = "Props/C16.v"


def generate(rng, tier, mult):
    return [c for c in _c.generate(rng, tier, mult) if c["kind"] == "pair"]


def emit_case(c):
    return "(Run_C16.CPair " + _c.lit(c["a"]) + " " + _c.lit(c["b"]) + ")"
