"""C17 - Sweeps enumerate exactly the documented combinations."""
from __future__ import annotations

import copy
import itertools
import json

from ..coqlit import Err, Ok, clist, cnat, copt, cpair, cstr, cz

PROP = "C17"
RUN = "Run_C17"
THEOREMS = "Props/C17.v"
ANCHORS = [("pipefunc/sweep.py",
            ["_combined_exclude", "_combine_dicts", "Sweep", "MultiSweep", "_check_dim_lengths", "generate_sweep",
             "count_sweep"])]
RULE = ("item dicts with <=4 keys and value lists of length 0..3 (ints/strs/tuples, with and without duplicates), "
        "dims=None / every kind of grouping (ordered set partitions, str and 1-tuple singletons, permuted strs, "
        "subsets) / malformed dims, optional constants, table-driven derivers and exclude predicates; pairs and "
        "triples for product and + / MultiSweep (nested), filtered_sweep for key subsets, count_sweep on small "
        "pipelines (Sweep / MultiSweep object and its .list(), value lists with repeated values and zipped groups "
        "whose projection onto the root arguments repeats), sequences of 2-3 operations (product / + / filtered_sweep / add_derivers) on 2-3 SHARED sweep "
        "objects with every object re-listed after every step; thorough adds the exhaustive enumeration for <=3 keys "
        "and lengths <=2; non-trivial = at least "
        "two keys or more than one sweep involved; distinct by the whole case")
ASSUMPTIONS = ["user callables (derivers, exclude) are structural functions of the combination dict; values are ints, "
               "strs and tuples (hashable, compared by ==)",
               "product: derivers/exclude of an operand only look at keys of that operand (otherwise the product is "
               "not determined by the operands' combination lists)",
               "filtered_sweep: keys non-empty, without repetition, among the keys the combinations carry; value "
               "lists without duplicates inside one key",
               "count_sweep: func_dependencies/root_args are taken from the real pipeline (they belong to C02); "
               "use_pandas=False"]
TRUSTED = ["Model/Sweep.v mirrors pipefunc/sweep.py by hand; tie = per-run differential execution",
           "itertools.product / zip / dict insertion order are mirrored by cart / zipn / dset"]

VALS = [0, 1, 2, 3, "p", "q", [1, "p"]]
KEYS = ["a", "b", "c", "d", "e"]


# ------------------------------------------------------------------ Coq literals
def cval(v) -> str:
    if isinstance(v, bool):
        raise TypeError("no bools in sweep values")
    if isinstance(v, int):
        return f"(SI {cz(v)})"
    if isinstance(v, str):
        return f"(SS {cstr(v)})"
    return "(SL " + clist([cval(x) for x in v]) + ")"


def cstrs(ks) -> str:
    return clist([cstr(k) for k in ks])


def cdim(g) -> str:
    return f"(DStr {cstr(g)})" if isinstance(g, str) else f"(DTup {cstrs(g)})"


def cdexpr(d) -> str:
    if d[0] == "sub":
        return f"(DSub {cstr(d[1])} {cstrs(d[2])})"
    if d[0] == "all":
        return f"(DAll {cstr(d[1])})"
    if d[0] == "const":
        return f"(DConst {cval(d[1])})"
    if d[0] == "get":
        return f"(DGet {cstr(d[1])})"
    raise ValueError(d)


def cpexpr(p) -> str:
    if p[0] == "in":
        return f"(PIn {cstrs(p[1])} {clist([clist([cval(x) for x in t]) for t in p[2]])})"
    if p[0] == "eq":
        return f"(PEq {cstr(p[1])} {cstr(p[2])})"
    if p[0] == "has":
        return f"(PHas {cstr(p[1])})"
    raise ValueError(p)


def crs(r) -> str:
    items = clist([cpair(cstr(k), clist([cval(x) for x in v])) for k, v in r["items"]])
    dims = copt(r["dims"], lambda d: clist([cdim(g) for g in d]))
    excl = copt(r["excl"], cpexpr)
    consts = copt(r["consts"], lambda l: clist([cpair(cstr(k), cval(v)) for k, v in l]))
    ders = copt(r["ders"], lambda l: clist([cpair(cstr(k), cdexpr(d)) for k, d in l]))
    return f"{{| r_items := {items}; r_dims := {dims}; r_excl := {excl}; r_consts := {consts}; r_ders := {ders} |}}"


def cmexpr(e) -> str:
    if e[0] == "leaf":
        return f"(ELeaf {crs(e[1])})"
    if e[0] == "add":
        return f"(EAdd {cmexpr(e[1])} {cmexpr(e[2])})"
    return "(EMulti " + clist([cmexpr(x) for x in e[1]]) + ")"


def emit_case(c) -> str:
    k = c["kind"]
    if k == "sweep":
        return f"(CSweep {crs(c['r'])})"
    if k == "addder":
        return f"(CAddDer {crs(c['r'])} {clist([cpair(cstr(a), cdexpr(d)) for a, d in c['d']])})"
    if k == "product":
        return f"(CProduct {crs(c['r'])} {clist([crs(o) for o in c['others']])})"
    if k == "multi":
        return f"(CMulti {cmexpr(c['e'])})"
    if k == "filter":
        return f"(CFilter {crs(c['r'])} {cstrs(c['keys'])})"
    if k == "filterm":
        return f"(CFilterM {cmexpr(c['e'])} {cstrs(c['keys'])})"
    if k == "count":
        return f"(CCount {crs(c['r'])} {clist([cpair(cstr(d), cstrs(a)) for d, a in c['deps']])})"
    if k == "countm":
        return f"(CCountM {cmexpr(c['e'])} {clist([cpair(cstr(d), cstrs(a)) for d, a in c['deps']])})"
    if k == "seq":
        return f"(CSeq {clist([crs(r) for r in c['base']])} {clist([csop(o) for o in c['ops']])})"
    raise ValueError(k)


def csop(o) -> str:
    if o[0] == "product":
        return f"(OProduct {cnat(o[1])} {clist([cnat(j) for j in o[2]])})"
    if o[0] == "add":
        return f"(OAdd {cnat(o[1])} {cnat(o[2])})"
    if o[0] == "filter":
        return f"(OFilter {cnat(o[1])} {cstrs(o[2])})"
    if o[0] == "addder":
        return f"(OAddDer {cnat(o[1])} {clist([cpair(cstr(a), cdexpr(d)) for a, d in o[2]])})"
    raise ValueError(o)


# ------------------------------------------------------------------ implementation driver
def tup(v):
    return tuple(tup(x) for x in v) if isinstance(v, list) else v


def mk_d(d):
    if d[0] == "sub":
        tag, ks = d[1], list(d[2])
        return lambda c: (tag, tuple(c[k] for k in ks))
    if d[0] == "all":
        tag = d[1]
        return lambda c: (tag, tuple(c.items()))
    if d[0] == "const":
        v = tup(d[1])
        return lambda c: v
    if d[0] == "get":
        k = d[1]
        return lambda c: c[k]
    raise ValueError(d)


def mk_p(p):
    if p[0] == "in":
        ks, table = list(p[1]), [tup(t) for t in p[2]]
        return lambda c: tuple(c[k] for k in ks) in table
    if p[0] == "eq":
        a, b = p[1], p[2]
        return lambda c: c[a] == c[b]
    if p[0] == "has":
        k = p[1]
        return lambda c: k in c
    raise ValueError(p)


def mk_sweep(r):
    from pipefunc.sweep import Sweep

    return Sweep(
        {k: [tup(x) for x in v] for k, v in r["items"]},
        dims=None if r["dims"] is None else [g if isinstance(g, str) else tuple(g) for g in r["dims"]],
        exclude=None if r["excl"] is None else mk_p(r["excl"]),
        constants=None if r["consts"] is None else {k: tup(v) for k, v in r["consts"]},
        derivers=None if r["ders"] is None else {k: mk_d(d) for k, d in r["ders"]},
    )


def mk_m(e):
    from pipefunc.sweep import MultiSweep

    if e[0] == "leaf":
        return mk_sweep(e[1])
    if e[0] == "add":
        return mk_m(e[1]) + mk_m(e[2])
    return MultiSweep(*[mk_m(x) for x in e[1]])


def _res(f):
    try:
        return Ok(f())
    except Exception as e:  # noqa: BLE001
        return Err(e)


def _combos(l):
    return [dict(c) for c in l]


def _obs(s):
    def lst():
        a = s.list()
        if len(a) > 1500:  # far beyond anything the generator asks for: report the size only
            return ["too-many-combinations", len(a)]
        b = [dict(c) for c in s]  # iteration yields the same combinations
        if a != b or [list(x) for x in a] != [list(x) for x in b]:
            raise RuntimeError("iteration differs from list()")
        return _combos(a)

    return [_res(lst), _res(lambda: len(s))]


def _cyclic(o, path=()):
    """A MultiSweep that (transitively) contains itself."""
    from pipefunc.sweep import MultiSweep

    if not isinstance(o, MultiSweep):
        return False
    if id(o) in path:
        return True
    return any(_cyclic(m, (*path, id(o))) for m in o.sweeps)


def run_seq(c):
    """Operations on SHARED objects; after every step list()/len() of every object that exists is observed again."""
    from pipefunc.sweep import MultiSweep

    objs = [mk_sweep(r) for r in c["base"]]

    def snap():
        return [_obs(o) for o in objs]

    out = [snap()]
    for op in c["ops"]:
        kind = op[0]
        idx = [op[1], *op[2]] if kind == "product" else ([op[1], op[2]] if kind == "add" else [op[1]])
        marker = "ok"
        new = None
        if any(i >= len(objs) for i in idx):
            marker = "bad-case"
        elif kind in ("product", "addder") and any(isinstance(objs[i], MultiSweep) for i in idx):
            marker = "bad-case"  # Sweep.product / add_derivers are not meaningful on a MultiSweep
        elif kind == "filter" and _cyclic(objs[op[1]]):
            marker = "bad-case"
        else:
            try:
                if kind == "product":
                    new = objs[op[1]].product(*[objs[j] for j in op[2]])
                elif kind == "add":
                    new = objs[op[1]] + objs[op[2]]
                elif kind == "filter":
                    new = objs[op[1]].filtered_sweep(list(op[2]))
                elif kind == "addder":
                    new = objs[op[1]].add_derivers(**{a: mk_d(d) for a, d in op[2]})
                else:
                    raise ValueError(kind)
            except Exception as e:  # noqa: BLE001
                marker = Err(e)
        if marker == "ok":
            objs.append(new)
        out.append([marker, snap()])
    return out


def mk_pipeline(funcs):
    from pipefunc import PipeFunc, Pipeline

    fs = []
    for out, params in funcs:
        f = eval(f"lambda {', '.join(params)}: 0")  # noqa: S307 - generated from identifiers chosen by the harness
        f.__name__ = "f_" + out
        fs.append(PipeFunc(f, output_name=out))
    return Pipeline(fs)


def run_impl(c):
    from pipefunc.sweep import count_sweep, generate_sweep

    k = c["kind"]
    if k == "sweep":
        s = mk_sweep(c["r"])
        o = _obs(s)
        g = _res(lambda: _combos(generate_sweep(s.items, s.dims, s.exclude, s.constants, s.derivers)))
        if isinstance(g, Ok) != isinstance(o[0], Ok) or (isinstance(g, Ok) and g.v != o[0].v):
            return ["generate_sweep-differs"]
        return o
    if k == "addder":
        s = mk_sweep(c["r"]).add_derivers(**{a: mk_d(d) for a, d in c["d"]})
        return _obs(s)
    if k == "product":
        s = mk_sweep(c["r"])
        others = [mk_sweep(o) for o in c["others"]]
        return _res(lambda: _obs(s.product(*others)))
    if k == "multi":
        return _obs(mk_m(c["e"]))
    if k == "filter":
        s = mk_sweep(c["r"])
        return _res(lambda: _obs(s.filtered_sweep(list(c["keys"]))))
    if k == "filterm":
        m = mk_m(c["e"])
        return _res(lambda: _obs(m.filtered_sweep(list(c["keys"]))))
    if k == "seq":
        return run_seq(c)
    if k in ("count", "countm"):
        s = mk_sweep(c["r"]) if k == "count" else mk_m(c["e"])
        p = mk_pipeline(c["funcs"])
        deps = [[d, list(p.root_args(d))] for d in p.func_dependencies(c["out"])]

        def fmt(r):
            return [[d, [[list(key), n] for key, n in v.items()]] for d, v in r.items()]

        # both forms of the same sweep: the object itself, and its list of dicts
        return [deps,
                _res(lambda: fmt(count_sweep(c["out"], s, p))),
                _res(lambda: fmt(count_sweep(c["out"], s.list(), p)))]
    raise ValueError(k)


# ------------------------------------------------------------------ generators
def _values(rng, n, dup):
    if dup:
        return [copy.deepcopy(rng.choice(VALS)) for _ in range(n)]
    return copy.deepcopy(rng.sample(VALS, n))


def gen_items_dims(rng, pool, maxkeys=4, maxlen=3, mode=None):
    """items (list of pairs) and dims; returns (items, dims, mode)."""
    nk = rng.choice([0, 1, 1, 2, 2, 2, 3, 3, 4])
    nk = min(nk, maxkeys, len(pool))
    keys = rng.sample(pool, nk)
    mode = mode or rng.choice(["none", "none", "partition", "partition", "partition", "singletons", "perm",
                               "subset", "malformed"])
    # groups
    if mode in ("none", "singletons", "perm") or nk == 0:
        groups = [[k] for k in keys]
    else:
        ks = list(keys)
        if rng.random() < 0.3:
            rng.shuffle(ks)
        groups = []
        while ks:
            n = rng.choice([1, 1, 2, 2, 3])
            groups.append(ks[:n])
            ks = ks[n:]
        if rng.random() < 0.3:
            rng.shuffle(groups)
    lens = {}
    for g in groups:
        n = rng.choice([0, 1, 1, 2, 2, 2, 3, 3])
        n = min(n, maxlen)
        for k in g:
            lens[k] = n
    if mode == "malformed" and nk and rng.random() < 0.4:
        lens[rng.choice(keys)] = rng.randint(0, maxlen)  # possibly a length mismatch inside a zipped group
    dup = rng.random() < 0.25
    items = [[k, _values(rng, lens[k], dup)] for k in keys]
    if mode == "none" or (nk == 0 and rng.random() < 0.7):
        return items, None, "none"

    def entry(g):
        if len(g) == 1 and rng.random() < 0.7:
            return g[0]
        return list(g)

    if mode == "singletons":
        dims = [entry(g) for g in groups]
    elif mode == "perm":
        ks = list(keys)
        rng.shuffle(ks)
        dims = ks if rng.random() < 0.8 else [entry([k]) for k in ks]
    else:
        dims = [entry(g) for g in groups]
    if mode == "subset" and dims:
        dims.pop(rng.randrange(len(dims)))
    if mode == "malformed":
        op = rng.randrange(5)
        if op == 0:
            dims.insert(rng.randint(0, len(dims)), rng.choice(["zz", ["zz"], [keys[0], "zz"] if keys else ["zz"]]))
        elif op == 1:
            dims.insert(rng.randint(0, len(dims)), [])
        elif op == 2 and keys:
            dims.append(rng.choice([keys[0], [keys[0]], [keys[0], keys[-1]]]))
        elif op == 3 and keys:
            dims.append([keys[0], keys[0]])
    return items, dims, mode


def gen_rsweep(rng, pool, tag="", maxkeys=4, maxlen=3, mode=None, plain=False, local=True):
    items, dims, mode = gen_items_dims(rng, pool, maxkeys, maxlen, mode)
    keys = [k for k, _ in items]
    covered = keys if dims is None else [k for g in dims for k in ([g] if isinstance(g, str) else g) if k in keys]
    r = {"items": items, "dims": dims, "excl": None, "consts": None, "ders": None}
    if plain:
        return r
    avail = list(dict.fromkeys(covered))
    x = rng.random()
    if x < 0.1:
        r["consts"] = []
    elif x < 0.45:
        cs = []
        for j in range(rng.choice([1, 1, 2])):
            k = f"k{j}{tag}" if not (keys and rng.random() < 0.2) else rng.choice(keys)
            if k not in [a for a, _ in cs]:
                cs.append([k, copy.deepcopy(rng.choice(VALS))])
        r["consts"] = cs
        avail += [k for k, _ in cs if k not in avail]
    x = rng.random()
    if x < 0.05:
        r["ders"] = []
    elif x < 0.45:
        ds = []
        for j in range(rng.choice([1, 1, 2])):
            k = f"d{j}{tag}" if not (keys and rng.random() < 0.15) else rng.choice(keys)
            if k in [a for a, _ in ds]:
                continue
            y = rng.random()
            if y < 0.6 or not avail:
                e = ["sub", f"t{j}", rng.sample(avail, rng.randint(0, min(2, len(avail))))]
            elif y < 0.7 and not local:
                e = ["all", f"t{j}"]
            elif y < 0.8:
                e = ["const", copy.deepcopy(rng.choice(VALS))]
            else:
                e = ["get", rng.choice(avail) if rng.random() < 0.93 else "missing"]
            ds.append([k, e])
            if k not in avail:
                avail.append(k)
        r["ders"] = ds
    x = rng.random()
    if x < 0.45 and avail:
        y = rng.random()
        if y < 0.6:
            ks = rng.sample(avail, rng.randint(1, min(2, len(avail))))
            col = {k: v for k, v in items}
            table = []
            for _ in range(rng.randint(0, 3)):
                table.append([copy.deepcopy(rng.choice(col[k])) if col.get(k) and rng.random() < 0.9
                              else copy.deepcopy(rng.choice(VALS)) for k in ks])
            r["excl"] = ["in", ks, table]
        elif y < 0.8 and len(avail) >= 2:
            a, b = rng.sample(avail, 2)
            r["excl"] = ["eq", a, b]
        else:
            r["excl"] = ["has", rng.choice(avail + ["missing"])]
    return r


def n_base(r):
    """Upper bound of the number of combinations (to keep literals small)."""
    n = 1
    lens = {k: len(v) for k, v in r["items"]}
    if r["dims"] is None:
        for v in lens.values():
            n *= max(v, 1)
    else:
        for g in r["dims"]:
            g = [g] if isinstance(g, str) else g
            n *= max([lens.get(k, 1) for k in g] + [1])
    return n


def pools(n):
    return [[k + str(i) for k in KEYS[:4]] for i in range(n)]


def gen_operands(rng, n, plain=False, maxkeys=3, local=True, mode=None):
    ps = pools(n) if rng.random() < 0.92 else [KEYS[:4]] * n
    ops = []
    for i in range(n):
        for _ in range(20):
            r = gen_rsweep(rng, ps[i], tag=f"_{i}", maxkeys=maxkeys, plain=plain, local=local,
                           mode=mode() if mode else None)
            if n_base(r) <= 9:
                break
        ops.append(r)
    return ops


def gen_mexpr(rng, depth=0):
    x = rng.random()
    if depth >= 2 or x < 0.35:
        for _ in range(20):
            r = gen_rsweep(rng, KEYS, maxkeys=3)
            if n_base(r) <= 9:
                break
        return ["leaf", r]
    if x < 0.75:
        return ["add", gen_mexpr(rng, depth + 1), gen_mexpr(rng, depth + 1)]
    return ["multi", [gen_mexpr(rng, depth + 1) for _ in range(rng.randint(0, 3))]]


def combo_key_list(r):
    keys = [k for k, _ in r["items"]]
    cov = keys if r["dims"] is None else [k for g in r["dims"] for k in ([g] if isinstance(g, str) else g)]
    out = list(dict.fromkeys(cov))
    for part in ("consts", "ders"):
        for k, _ in (r[part] or []):
            if k not in out:
                out.append(k)
    return out


def gen_keys(rng, r):
    ck = combo_key_list(r)
    if not ck or rng.random() < 0.05:
        return rng.sample(["a", "zz"], rng.randint(0, 2))
    ks = rng.sample(ck, rng.randint(1, min(3, len(ck))))
    if rng.random() < 0.06:
        ks.append(rng.choice(["zz", ks[0]]))
    return ks


def gen_filter_sweep(rng):
    """Mostly inside the premises of the filtered_sweep clause (no constants / exclude, no duplicate values)."""
    for _ in range(50):
        r = gen_rsweep(rng, KEYS, mode=rng.choice(["none", "partition", "partition", "singletons", "perm", "subset"]))
        if rng.random() < 0.8:
            r["consts"] = None
            r["excl"] = None
            for kv in r["items"]:
                kv[1] = copy.deepcopy(rng.sample(VALS, len(kv[1])))
        if n_base(r) <= 12:
            return r
    return r


def _ancestors(funcs, out):
    prod = {o: ps for o, ps in funcs}
    seen, roots = [], []

    def go(o):
        for p in prod[o]:
            if p in prod:
                if p not in seen:
                    seen.append(p)
                    go(p)
            elif p not in roots:
                roots.append(p)

    go(out)
    return seen, roots


def _repeat_rows(rng, r):
    """Repeat values inside the value lists: whole rows of a zipped group, or single keys of it (so that the
    projection onto some root arguments repeats while the combinations stay different)."""
    col = {k: v for k, v in r["items"]}
    groups = [[k] for k in col] if r["dims"] is None else [[g] if isinstance(g, str) else list(g) for g in r["dims"]]
    for g in groups:
        g = [k for k in g if k in col]
        if not g or len(col[g[0]]) < 2 or rng.random() < 0.3:
            continue
        n = min(len(col[k]) for k in g)
        src, dst = rng.sample(range(n), 2)
        ks = g if rng.random() < 0.5 else rng.sample(g, rng.randint(1, len(g)))
        for k in ks:
            col[k][dst] = copy.deepcopy(col[k][src])


def gen_count(rng, multi=False):
    plain = rng.random() < 0.6
    rs = []
    for _ in range(rng.choice([2, 3]) if multi else 1):
        for _ in range(30):
            r = gen_rsweep(rng, KEYS[:3] if multi else KEYS, mode=rng.choice(["none", "none", "partition", "singletons"]),
                           plain=plain, maxlen=3)
            if n_base(r) <= 27:
                break
        if rng.random() < 0.7:
            _repeat_rows(rng, r)
        rs.append(r)
    r = rs[0]
    ck = combo_key_list(r) or ["a"]
    if multi:  # root arguments every member carries (mostly)
        common = [k for k in ck if all(k in combo_key_list(x) for x in rs)]
        ck = common or ck
    if rng.random() < 0.05:
        ck = ck + ["zz"]
    nf = rng.choice([2, 2, 3, 4])
    funcs = []
    for i in range(nf):
        params = rng.sample(ck, rng.randint(1, min(3, len(ck))))
        if funcs and rng.random() < 0.85:  # chain on an earlier function, so that there are dependencies
            params = params[: max(1, len(params) - 1)] + [rng.choice(funcs)[0]]
        funcs.append([f"f{i}", params])
    out = funcs[-1][0] if rng.random() < 0.9 else rng.choice(funcs)[0]
    deps = []
    for d in sorted(_ancestors(funcs, out)[0]):
        deps.append([d, sorted(_ancestors(funcs, d)[1])])
    if multi:
        e = ["multi", [["leaf", x] for x in rs]] if rng.random() < 0.5 else ["add", ["leaf", rs[0]], ["leaf", rs[1]]]
        return {"kind": "countm", "e": e, "funcs": funcs, "out": out, "deps": deps}
    return {"kind": "count", "r": r, "funcs": funcs, "out": out, "deps": deps}


def ordered_partitions(keys):
    """All ordered set partitions of keys (groups keep the key order inside)."""
    if not keys:
        yield []
        return
    n = len(keys)
    # assign each key a block label, normalise, then permute the blocks
    seen = set()
    for labels in itertools.product(range(n), repeat=n):
        blocks = {}
        for k, l in zip(keys, labels):
            blocks.setdefault(l, []).append(k)
        part = tuple(sorted(tuple(b) for b in blocks.values()))
        if part in seen:
            continue
        seen.add(part)
        for perm in itertools.permutations(part):
            yield [list(b) for b in perm]


def exhaustive_sweeps():
    """All item dicts with <=3 keys, lengths <=2 (distinct values), dims=None and every ordered partition."""
    out = []
    for n in range(4):
        keys = KEYS[:n]
        for lens in itertools.product(range(3), repeat=n):
            items = [[k, [10 * (i + 1) + j for j in range(l)]] for i, (k, l) in enumerate(zip(keys, lens))]
            out.append({"items": items, "dims": None, "excl": None, "consts": None, "ders": None})
            for part in ordered_partitions(keys):
                if any(len({lens[keys.index(k)] for k in g}) > 1 for g in part):
                    continue
                for form in (0, 1):
                    dims = [g[0] if (len(g) == 1 and form == 0) else list(g) for g in part]
                    if form == 1 and all(len(g) > 1 for g in part):
                        continue
                    out.append({"items": copy.deepcopy(items), "dims": dims, "excl": None, "consts": None,
                                "ders": None})
    return out


def rename(r, suffix):
    r = copy.deepcopy(r)
    r["items"] = [[k + suffix, v] for k, v in r["items"]]
    if r["dims"] is not None:
        r["dims"] = [g + suffix if isinstance(g, str) else [k + suffix for k in g] for g in r["dims"]]
    return r


def gen_seq(rng):
    """2-3 operations on three shared sweeps (disjoint key pools); products avoid the region of product-loses-zip."""
    nb = rng.choice([2, 3, 3])
    ps = pools(nb)
    rich = rng.random() < 0.5
    base = []
    for i in range(nb):
        for _ in range(50):
            r = gen_rsweep(rng, ps[i], tag=f"_{i}", maxkeys=2,
                           mode=rng.choice(["none", "none", "partition", "singletons"]))
            if (r["items"] or rng.random() < 0.1) and n_base(r) <= 3:
                break
        else:
            r = {"items": [[ps[i][0], [1, 2]]], "dims": None, "excl": None, "consts": None, "ders": None}
        if rich:
            if not r["consts"]:
                r["consts"] = [[f"k0_{i}", copy.deepcopy(rng.choice(VALS))]]
            if not r["ders"] and r["items"] and rng.random() < 0.7:
                r["ders"] = [[f"d0_{i}", ["sub", "t0", [r["items"][0][0]]]]]
        base.append(r)
    # generator-side picture of the objects (optimistic: every operation is assumed to succeed)
    objs = [{"multi": False, "members": []} for _ in base]
    slots = [{"obj": i, "multi": False, "bases": {i}, "dims_none": base[i]["dims"] is None, "prod": True}
             for i in range(nb)]

    ops = []
    for _ in range(rng.choice([2, 3, 3])):
        x = rng.random()
        cand = [i for i, sl in enumerate(slots) if sl["prod"] and not sl["multi"]]
        if x < 0.45 and len(cand) >= 2:
            i = rng.choice(cand)
            others = [j for j in cand if j != i and (rng.random() < 0.08 or not (slots[j]["bases"] & slots[i]["bases"]))]
            rng.shuffle(others)
            js, used = [], set(slots[i]["bases"])
            for j in others[: rng.choice([1, 1, 2])]:
                if not (slots[j]["bases"] & used) or rng.random() < 0.08:
                    js.append(j)
                    used |= slots[j]["bases"]
            if not js:
                continue
            order = [i, *js]
            if slots[order[0]]["dims_none"] and any(not slots[j]["dims_none"] for j in order):
                k = next(j for j in order if not slots[j]["dims_none"])
                order.remove(k)
                order.insert(0, k)
            ops.append(["product", order[0], order[1:]])
            objs.append({"multi": False, "members": []})
            slots.append({"obj": len(objs) - 1, "multi": False, "bases": used,
                          "dims_none": slots[order[0]]["dims_none"], "prod": True})
        elif x < 0.70:
            i, j = rng.randrange(len(slots)), rng.randrange(len(slots))
            ops.append(["add", i, j])  # always a new MultiSweep object
            slots.append({"obj": len(slots), "multi": True, "bases": slots[i]["bases"] | slots[j]["bases"],
                          "dims_none": True, "prod": False})
        elif x < 0.85:
            i = rng.randrange(len(slots))
            ck = [k for b in sorted(slots[i]["bases"]) for k in combo_key_list(base[b])]
            keys = rng.sample(ck, rng.randint(1, min(2, len(ck)))) if ck else ["zz"]
            ops.append(["filter", i, keys])
            objs.append({"multi": slots[i]["multi"], "members": []})
            slots.append({"obj": len(objs) - 1, "multi": slots[i]["multi"], "bases": slots[i]["bases"],
                          "dims_none": False, "prod": False})
        elif cand:
            i = rng.choice(cand)
            b0 = base[min(slots[i]["bases"])]
            ops.append(["addder", i, [[f"z{len(ops)}", ["sub", "t9", [kv[0] for kv in b0["items"][:1]]]]]])
            objs.append({"multi": False, "members": []})
            slots.append({"obj": len(objs) - 1, "multi": False, "bases": slots[i]["bases"],
                          "dims_none": slots[i]["dims_none"], "prod": True})
    return {"kind": "seq", "base": base, "ops": ops}


_S = lambda k, v, **kw: {"items": [[k, v]], "dims": None, "excl": None, "consts": kw.get("consts"),  # noqa: E731
                         "ders": kw.get("ders")}

CORNERS = [
    # count_sweep with repeated values: a product, and a zipped group whose projection onto (a, b) repeats
    {"kind": "count", "r": {"items": [["a", [1, 1, 2]], ["b", [3, 4]], ["x", [5, 6]]], "dims": None, "excl": None,
                            "consts": None, "ders": None},
     "funcs": [["c", ["a", "b"]], ["d", ["c", "x"]]], "out": "d", "deps": [["c", ["a", "b"]]]},
    {"kind": "count", "r": {"items": [["a", [1, 1, 2]], ["b", [3, 3, 4]], ["x", [5, 6, 7]]], "dims": [["a", "b", "x"]],
                            "excl": None, "consts": None, "ders": None},
     "funcs": [["c", ["a", "b"]], ["d", ["c", "x"]]], "out": "d", "deps": [["c", ["a", "b"]]]},
    # shared operands: a second / a triple product after a first one, everything listed again (constants, derivers)
    {"kind": "seq", "base": [_S("a", [1, 2], consts=[["x", 10]]), _S("b", [3, 4], consts=[["y", 20]]),
                             _S("c", [5], consts=[["z", 30]])],
     "ops": [["product", 0, [1]], ["product", 0, [2]], ["product", 0, [1, 2]]]},
    {"kind": "seq", "base": [_S("a", [1, 2], ders=[["x", ["sub", "t", ["a"]]]]),
                             _S("b", [3, 4], ders=[["y", ["sub", "t", ["b"]]]])],
     "ops": [["product", 0, [1]], ["product", 1, [0]]]},
    {"kind": "seq", "base": [_S("a", [1]), _S("b", [2]), _S("c", [3])],
     "ops": [["add", 0, 1], ["add", 3, 2], ["filter", 3, ["a"]]]},

    {"kind": "sweep", "r": {"items": [], "dims": None, "excl": None, "consts": None, "ders": None}},
    {"kind": "sweep", "r": {"items": [], "dims": None, "excl": None, "consts": [["k", 1]], "ders": None}},
    {"kind": "sweep", "r": {"items": [], "dims": [], "excl": ["has", "a"], "consts": None, "ders": None}},
    {"kind": "sweep", "r": {"items": [["a", [1, 2]]], "dims": [], "excl": None, "consts": None, "ders": None}},
    # the three design-phase witnesses
    {"kind": "product", "r": {"items": [["a", [1, 2]]], "dims": None, "excl": None, "consts": None, "ders": None},
     "others": [{"items": [["b", [1, 2]], ["c", [3, 4]]], "dims": [["b", "c"]], "excl": None, "consts": None,
                 "ders": None}]},
    {"kind": "product", "r": {"items": [["a", [1, 2]]], "dims": None, "excl": None, "consts": None, "ders": None},
     "others": [{"items": [["b", [1, 2]]], "dims": None, "excl": ["in", ["b"], [[1]]], "consts": [["k", 9]],
                 "ders": [["d", ["sub", "t", ["b"]]]]},
                {"items": [["c", [1]]], "dims": None, "excl": None, "consts": None, "ders": None}]},
    {"kind": "product", "r": {"items": [["a", [1, 2]]], "dims": None, "excl": None, "consts": None, "ders": None},
     "others": []},
    {"kind": "product", "r": {"items": [["a", [1, 2]]], "dims": None, "excl": None, "consts": None, "ders": None},
     "others": [{"items": [], "dims": None, "excl": None, "consts": None, "ders": None}]},
    {"kind": "filter", "r": {"items": [["a", [1, 2]], ["b", []]], "dims": None, "excl": None, "consts": None,
                             "ders": None}, "keys": ["a"]},
    {"kind": "filter", "r": {"items": [["a", [1, 2]], ["b", [3]]], "dims": None, "excl": ["in", ["a"], [[1], [2]]],
                             "consts": None, "ders": [["d", ["get", "a"]]]}, "keys": ["d"]},
]


def generate(rng, tier, mult):
    quick = tier == "quick"
    n = (120 if quick else 1500) * mult
    cases = [copy.deepcopy(c) for c in CORNERS]
    ex = exhaustive_sweeps()
    if quick:
        cases += [{"kind": "sweep", "r": r} for r in rng.sample(ex, 150)]
    else:
        cases += [{"kind": "sweep", "r": r} for r in ex]
        small = [r for r in ex if n_base(r) <= 4 and len(r["items"]) <= 2]
        # all pairs of the small exhaustive sweeps for product and +, random triples
        for a in small:
            for b in small:
                if rng.random() < 0.35:
                    cases.append({"kind": "product", "r": rename(a, "1"), "others": [rename(b, "2")]})
                if rng.random() < 0.15:
                    cases.append({"kind": "multi", "e": ["add", ["leaf", a], ["leaf", b]]})
        for _ in range(1500):
            a, b, c = (rng.choice(small) for _ in range(3))
            cases.append({"kind": "product", "r": rename(a, "1"), "others": [rename(b, "2"), rename(c, "3")]})
        for r in ex:
            ck = combo_key_list(r)
            for m in range(1, len(ck) + 1):
                for ks in itertools.combinations(ck, m):
                    if rng.random() < 0.5:
                        cases.append({"kind": "filter", "r": r, "keys": list(ks)})
    for _ in range(n):
        for _ in range(3):
            cases.append({"kind": "sweep", "r": gen_rsweep(rng, KEYS, local=False)})
        r = gen_rsweep(rng, KEYS)
        r2 = gen_rsweep(rng, KEYS)
        cases.append({"kind": "addder", "r": r, "d": r2["ders"] or []})
        for nops in (2, 3):
            plain = rng.random() < 0.3
            cases.append({"kind": "product", "r": None, "others": gen_operands(rng, nops, plain=plain,
                                                                               local=rng.random() < 0.9)})
        if rng.random() < 0.5:
            # well-formed operands only (the theorem's domain)
            cases.append({"kind": "product", "r": None,
                          "others": gen_operands(rng, rng.choice([2, 3]), mode=lambda: rng.choice(
                              ["none", "partition", "singletons"]))})
        if rng.random() < 0.1:
            cases.append({"kind": "product", "r": None, "others": gen_operands(rng, rng.choice([1, 4]), maxkeys=2)})
        cases.append({"kind": "multi", "e": gen_mexpr(rng)})
        r = gen_filter_sweep(rng)
        cases.append({"kind": "filter", "r": r, "keys": gen_keys(rng, r)})
        if rng.random() < 0.4:
            e = gen_mexpr(rng)
            lv = _leaves(e)
            cases.append({"kind": "filterm", "e": e, "keys": gen_keys(rng, lv[0]) if lv else ["a"]})
        cases.append(gen_count(rng))
        if rng.random() < 0.3:
            cases.append(gen_count(rng, multi=True))
        for _ in range(2):
            sq = gen_seq(rng)
            if sq["ops"]:
                cases.append(sq)
    for c in cases:
        if c["kind"] == "product" and c["r"] is None:
            c["r"], c["others"] = c["others"][0], c["others"][1:]
        if c["kind"] == "product":
            # keep the literals small: at most 256 combinations
            while c["others"] and n_base(c["r"]) * _prod(n_base(o) for o in c["others"]) > 256:
                c["others"].pop()
    return cases


def _prod(xs):
    n = 1
    for x in xs:
        n *= x
    return n


def _leaves(e):
    if e[0] == "leaf":
        return [e[1]]
    if e[0] == "add":
        return _leaves(e[1]) + _leaves(e[2])
    return [x for sub in e[1] for x in _leaves(sub)]


def _sweeps_of(c):
    k = c["kind"]
    if k in ("sweep", "addder", "filter", "count"):
        return [c["r"]]
    if k == "product":
        return [c["r"], *c["others"]]
    if k == "countm":
        return _leaves(c["e"])
    if k == "seq":
        return list(c["base"])
    return _leaves(c["e"])


def nontrivial_key(c):
    sw = _sweeps_of(c)
    if len(sw) >= 2 or (sw and len(sw[0]["items"]) >= 2):
        return json.dumps(c, sort_keys=True)
    return None


def distribution(c):
    sw = _sweeps_of(c)
    d = {"kind": c["kind"], "n_sweeps": min(len(sw), 4)}
    if sw:
        r = sw[0]
        d["keys0"] = len(r["items"])
        d["dims0"] = "none" if r["dims"] is None else ("zip" if any(isinstance(g, list) and len(g) > 1
                                                                     for g in r["dims"]) else "flat")
        d["extras0"] = "".join(x[0] for x in ("excl", "consts", "ders") if r[x] is not None) or "-"
    if c["kind"] in ("count", "countm"):
        rep = any(len({json.dumps(x) for x in v}) < len(v) for r in sw for _, v in r["items"])
        plain = all(r["excl"] is None and r["consts"] is None and r["ders"] is None for r in sw)
        d["count_form"] = ("plain" if plain else "extras") + ("+repeated-values" if rep else "") \
            + ("+deps" if c["deps"] else "+nodeps")
    if c["kind"] == "seq":
        d["seq_ops"] = ",".join(o[0] for o in c["ops"])
        d["seq_shared_extras"] = "%dc%dd" % (sum(1 for r in sw if r["consts"]), sum(1 for r in sw if r["ders"]))
    return d


def _impl_list(impl_obs):
    """The combination list inside an observation ["ok", [["ok", list], len]] (None if absent)."""
    try:
        if impl_obs[0] == "ok" and impl_obs[1][0][0] == "ok":
            return impl_obs[1][0][1]
    except (IndexError, TypeError):
        pass
    return None


def _seq_finding(c, impl_obs):
    """Replays the slot bookkeeping of a sequence and names the first operation that lies in a known-finding region."""
    slots = [{"dims_none": r["dims"] is None} for r in c["base"]]
    for n, op in enumerate(c["ops"]):
        try:
            ok = impl_obs[n + 1][0] == "ok"
        except (IndexError, TypeError):
            return None
        if not ok:
            continue
        kind = op[0]
        idx = [op[1], *op[2]] if kind == "product" else ([op[1], op[2]] if kind == "add" else [op[1]])
        if any(i >= len(slots) for i in idx):
            return None
        if kind == "product":
            sl = [slots[i] for i in idx]
            if sl[0]["dims_none"] and any(not s["dims_none"] for s in sl[1:]):
                return "product-loses-zip"
            slots.append({"dims_none": sl[0]["dims_none"]})
        elif kind == "add":
            slots.append({"dims_none": True})
        elif kind == "filter":
            slots.append({"dims_none": False})
        else:
            slots.append({"dims_none": slots[op[1]]["dims_none"]})
    return None


def finding_id(c, impl_obs, kind):
    k = c["kind"]
    if k == "seq":
        return _seq_finding(c, impl_obs)
    lst = _impl_list(impl_obs)
    if k == "product" and lst is not None:
        # the first operand has dims=None, a later one has dims: its grouping is ignored
        if c["r"]["dims"] is None and any(o["dims"] is not None for o in c["others"]):
            return "product-loses-zip"
    return None


def shrink(c):
    out = []

    def shr(r):
        res = []
        for part in ("excl", "consts", "ders"):
            if r[part] is not None:
                d = copy.deepcopy(r)
                d[part] = None
                res.append(d)
        for i in range(len(r["items"])):
            d = copy.deepcopy(r)
            k = d["items"].pop(i)[0]
            if d["dims"] is not None:
                nd = []
                for g in d["dims"]:
                    if isinstance(g, str):
                        if g != k:
                            nd.append(g)
                    else:
                        g2 = [x for x in g if x != k]
                        if g2:
                            nd.append(g2)
                d["dims"] = nd
            res.append(d)
        for i, (k, v) in enumerate(r["items"]):
            if len(v) > 1 and r["dims"] is None:
                d = copy.deepcopy(r)
                d["items"][i][1] = v[:-1]
                res.append(d)
        return res

    k = c["kind"]
    if k in ("sweep", "addder", "filter", "count"):
        for r in shr(c["r"]):
            d = copy.deepcopy(c)
            d["r"] = r
            out.append(d)
    if k == "product":
        for i in range(len(c["others"])):
            d = copy.deepcopy(c)
            d["others"].pop(i)
            out.append(d)
        for r in shr(c["r"]):
            d = copy.deepcopy(c)
            d["r"] = r
            out.append(d)
        for i, o in enumerate(c["others"]):
            for r in shr(o):
                d = copy.deepcopy(c)
                d["others"][i] = r
                out.append(d)
    if k == "seq":
        if len(c["ops"]) > 1:
            d = copy.deepcopy(c)
            d["ops"].pop()
            out.append(d)
        for i, r in enumerate(c["base"]):
            for part in ("excl", "consts", "ders"):
                if r[part] is not None:
                    d = copy.deepcopy(c)
                    d["base"][i][part] = None
                    out.append(d)
    if k in ("filter", "filterm") and len(c["keys"]) > 1:
        for i in range(len(c["keys"])):
            d = copy.deepcopy(c)
            d["keys"].pop(i)
            out.append(d)
    return out
