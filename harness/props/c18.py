"""C18 - Lazy pipelines evaluate to the eager result, at most once per node."""
from __future__ import annotations

from .. import pipegen
from ..coqlit import Err, Ok, cbool, cstr
from ..symfuncs import canon
from . import c02

PROP = "C18"
RUN = "Run_C18"
THEOREMS = "Props/C18.v"
ANCHORS = [("pipefunc/lazy.py", ["_LazyFunction", "construct_dag", "evaluate_lazy", "task_graph", "TaskGraph"]),
           ("pipefunc/_pipeline/_base.py", ["Pipeline.run", "Pipeline._run", "Pipeline._get_func_args",
                                            "_update_all_results", "_execute_func", "Pipeline._current_cache"]),
           ("pipefunc/_pipefunc.py", ["PipeFunc.__call__", "PipeFunc._evaluate_lazy", "PipeFunc.output_picker",
                                      "_default_output_picker"])]
RULE = ("the pipelines of C02 (diamonds, tuple-output nodes, shared parameters, defaults, bound values, renames) built "
        "with lazy=True x every output x every arg combination + random cuts / surplus / missing keywords x "
        "full_output x with/without construct_dag(); observed: call log before evaluate, value and log after one "
        "and after two evaluate_lazy calls, task graph (nodes relabelled in allocation order); non-trivial = "
        ">= 2 needed functions or a tuple output; distinct by (pipeline, output, keywords, flags)")
ASSUMPTIONS = list(c02.ASSUMPTIONS) + ["one run per construct_dag() context (its SimpleCache is fresh and never hits)"]
TRUSTED = ["Model/Lazy.v mirrors pipefunc/lazy.py and the lazy branches of _base.py by hand; tie = per-run "
           "differential execution", "harness/symfuncs.py (structural bodies, call log)"]


def emit_case(c) -> str:
    return (f"(CLazy {pipegen.pipeline_lit(c['p'])} {cstr(c['o'])} {pipegen.alist_lit(c['kw'])} "
            f"{cbool(c['full'])} {cbool(c['dag'])})")


def _val(x):
    if isinstance(x, dict):
        return [[k, canon(v)] for k, v in sorted(x.items())]
    return canon(x)


def run_impl(c):
    from pipefunc.lazy import construct_dag, evaluate_lazy

    try:
        b = pipegen.build_cached(c["p"], slot="lazy", lazy=True)
    except Exception:  # noqa: BLE001
        return ["bad-case"]
    pl, log = b.pipeline, b.log
    kw = dict(c["kw"])
    tg = None
    try:
        if c["dag"]:
            with construct_dag() as tg:
                r = pl.run(c["o"], full_output=c["full"], kwargs=kw)
        else:
            r = pl.run(c["o"], full_output=c["full"], kwargs=kw)
    except Exception as e:  # noqa: BLE001
        return [Err(e)]
    log0 = log.read()

    def ev():
        try:
            return Ok(_val(evaluate_lazy(r)))
        except Exception as e:  # noqa: BLE001
            return Err(e)

    v1 = ev()
    log1 = log.read()
    v2 = ev()
    log2 = log.read()
    g = None
    if tg is not None:
        ids = sorted(tg.graph.nodes)
        pos = {i: k for k, i in enumerate(ids)}
        labels = []
        for i in ids:
            lf = tg.mapping[i]
            name = getattr(lf.func, "__name__", None)
            labels.append(name if name is not None and not lf.args else "pick:" + str(lf.args[1]))
        g = [labels, sorted([pos[a], pos[b]] for a, b in tg.graph.edges)]
    return ["ok", log0, v1, log1, v2, log2, g]


def generate(rng, tier, mult):
    n_pipes = (40 if tier == "quick" else 1000) * mult
    cases = []
    n_diamonds = (8 if tier == "quick" else 100) * mult
    for k in range(n_pipes + n_diamonds):
        if k < n_diamonds:      # a node whose value is None shared by >= 2 consumers
            pd = pipegen.gen_none_diamond(rng)
        else:
            pd = pipegen.gen_pipeline(rng, none_prob=rng.choice([0.0, 0.0, 0.2, 0.4]))
        if rng.random() < 0.5:
            q = list(pd["funcs"])
            rng.shuffle(q)
            pd = {"funcs": q}
        for o in pipegen.outputs_of(pd):
            for tag, kw in c02.calls_for(rng, pd, o, budget=2 if tier == "quick" else 4):
                cases.append({"p": pd, "o": o, "kw": kw, "full": rng.random() < 0.35, "dag": rng.random() < 0.5,
                              "tag": tag})
    return cases


def nontrivial_key(c):
    fs = c["p"]["funcs"]
    if len(fs) >= 2 or any(len(f["outs"]) > 1 for f in fs):
        return (c["p"], c["o"], c["kw"], c["full"], c["dag"])
    return None


def distribution(c):
    return {"nfuncs": len(c["p"]["funcs"]), "tag": c.get("tag", ""), "flags": f"{'F' if c['full'] else ''}{'D' if c['dag'] else ''}"}


def finding_id(c, impl_obs, kind):
    return None


def shrink(c):
    out = []
    fs = c["p"]["funcs"]
    for j in range(len(fs)):
        d = dict(c)
        d["p"] = {"funcs": fs[:j] + fs[j + 1:]}
        out.append(d)
    for j in range(len(c["kw"])):
        d = dict(c)
        d["kw"] = c["kw"][:j] + c["kw"][j + 1:]
        out.append(d)
    return out
