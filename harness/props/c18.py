"""C18 - Lazy pipelines evaluate to the eager result, at most once per node."""
from __future__ import annotations

from .. import pipegen
from ..coqlit import Err, Ok, cbool, clist, cnat, cstr
from ..symfuncs import canon
from . import c02

PROP = "C18"
RUN = "Run_C18"
THEOREMS = "Props/C18.v"
ANCHORS = [("pipefunc/lazy.py", ["_LazyFunction", "construct_dag", "evaluate_lazy", "task_graph", "TaskGraph"]),
           ("pipefunc/_pipeline/_base.py", ["Pipeline.run", "Pipeline._run", "Pipeline._get_func_args",
                                            "_update_all_results", "_execute_func", "Pipeline._current_cache"]),
           ("pipefunc/_pipefunc.py", ["PipeFunc.__call__", "PipeFunc._evaluate_lazy", "PipeFunc.output_picker",
                                      "_default_output_picker"]),
           ("pipefunc/_pipeline/_cache.py", ["compute_cache_key", "get_result_from_cache", "update_cache", "create_cache"])]
RULE = ("the pipelines of C02 (diamonds, tuple-output nodes, shared parameters, defaults, bound values, renames) built "
        "with lazy=True x every output x every arg combination + random cuts / surplus / missing keywords x "
        "full_output x with/without construct_dag(); observed: call log before evaluate, value and log after one "
        "and after two evaluate_lazy calls, task graph (nodes relabelled in allocation order) + functions / tuple "
        "members returning None and diamonds over them + SEQUENCES of 2-3 requests to one lazy pipeline object "
        "(inside one construct_dag() block, or outside with cache=True functions; same / changed root values, "
        "surplus / missing keywords, evaluation in between; keyword values that are deferred results of earlier "
        "requests - bare, inside lists / tuples, nested two levels deep - with the recorded edges compared to the "
        "dependencies read off the stored arguments of every node) + HISTORIES of phases on one pipeline object "
        "(requests outside any block first / successive construct_dag() blocks, deferred results of earlier phases "
        "supplied to later blocks bare or in containers; per block: node range, recorded edges, acyclicity, every "
        "dependency recorded) + deferred objects that OUTLIVE their pipeline (built on a fresh pipeline inside a "
        "factory, pipeline dropped and garbage-collected, optionally a cloudpickle round trip, then evaluate); "
        "non-trivial = "
        ">= 2 needed functions or a tuple output; distinct by (pipeline, output, keywords, flags)")
ASSUMPTIONS = list(c02.ASSUMPTIONS) + ["LRU cache of a lazy pipeline below its max_size (no eviction)"]
TRUSTED = ["Model/Lazy.v mirrors pipefunc/lazy.py and the lazy branches of _base.py by hand; tie = per-run "
           "differential execution", "harness/symfuncs.py (structural bodies, call log)"]


def emit_case(c) -> str:
    if c.get("kind") in ("seq", "blocks"):
        def kv(v):
            if isinstance(v, dict) and "res" in v:
                return f"(KRes {cnat(v['res'])})"
            if isinstance(v, dict):
                return f"(KList {cbool(bool(v.get('tuple')))} " + clist([kv(x) for x in v["list"]]) + ")"
            return f"(KStr {cstr(canon(v))})"

        def kwl(kw):
            return clist([f"({cstr(k)}, {kv(v)})" for k, v in kw])

        def rql(reqs):
            return clist([f"({cstr(o)}, {kwl(kw)}, {cbool(full)}, {cbool(now)})" for o, kw, full, now in reqs])

        if c["kind"] == "blocks":
            phases = clist([f"({cbool(dag)}, {rql(reqs)})" for dag, reqs in c["phases"]])
            return f"(CBlocks {pipegen.pipeline_lit(c['p'])} {phases})"
        return f"(CSeq {pipegen.pipeline_lit(c['p'])} {cbool(c['dag'])} {rql(c['reqs'])})"
    return (f"(CLazy {pipegen.pipeline_lit(c['p'])} {cstr(c['o'])} {pipegen.alist_lit(c['kw'])} "
            f"{cbool(c['full'])} {cbool(c['dag'])})")


def _val(x):
    if isinstance(x, dict):
        return [[k, canon(v)] for k, v in sorted(x.items())]
    return canon(x)


def _graph_obs(tg, with_deps=False):
    from pipefunc.lazy import _LazyFunction

    ids = sorted(tg.graph.nodes)
    pos = {i: k for k, i in enumerate(ids)}
    labels = []
    for i in ids:
        lf = tg.mapping[i]
        name = getattr(lf.func, "__name__", None)
        labels.append(name if name is not None and not lf.args else "pick:" + str(lf.args[1]))
    g = [labels, sorted([pos[a], pos[b]] for a, b in tg.graph.edges)]
    if with_deps:
        # the producer-consumer dependencies of a node, read off the arguments it stores: the deferred objects
        # that add_edge is meant to record (since the repair of add_edge: at any container depth, like evaluate_lazy;
        # Model/LazyXref.v deps_edge) and those that evaluate_lazy evaluates (deps_all)
        def walk(v, depth, maxd, acc):
            if isinstance(v, _LazyFunction):
                acc.add(pos[v._id])
            elif isinstance(v, (list, tuple, set)) and depth < maxd:
                for x in v:
                    walk(x, depth + 1, maxd, acc)
            elif isinstance(v, dict) and depth < maxd:
                for x in v.values():
                    walk(x, depth + 1, maxd, acc)

        d1, dall = [], []
        for i in ids:
            lf = tg.mapping[i]
            a1, a2 = set(), set()
            for v in [*lf.args, *lf.kwargs.values()]:
                walk(v, 0, 10**6, a1)
                walk(v, 0, 10**6, a2)
            d1.append(sorted(a1))
            dall.append(sorted(a2))
        g += [d1, dall]
    return g


def _run_seq(c):
    """ONE lazy pipeline object, several requests (inside one construct_dag() block when c['dag'])."""
    import contextlib

    from pipefunc.lazy import construct_dag, evaluate_lazy

    try:
        b = pipegen.build(c["p"], lazy=True)          # a fresh object: its cache must start empty
    except Exception:  # noqa: BLE001
        return ["bad-case"]
    pl, log = b.pipeline, b.log
    results, tg = [], None
    with (construct_dag() if c["dag"] else contextlib.nullcontext()) as tg:
        def mat(v):
            if isinstance(v, dict) and "res" in v:
                j = v["res"]
                ok = j < len(results) and not isinstance(results[j], Err) and not c["reqs"][j][2]
                return results[j][1] if ok else "none"
            if isinstance(v, dict):
                items = [mat(x) for x in v["list"]]
                return tuple(items) if v.get("tuple") else items
            return v

        for o, kw, full, now in c["reqs"]:
            try:
                r = pl.run(o, full_output=full, kwargs={k: mat(v) for k, v in kw})
            except Exception as e:  # noqa: BLE001
                results.append(Err(e))
                continue
            results.append(("ok", r))
            if now:
                try:
                    evaluate_lazy(r)
                except Exception:  # noqa: BLE001
                    pass
    log0 = log.read()
    values = []
    for r in results:
        if isinstance(r, Err):
            values.append(None)
            continue
        try:
            values.append(Ok(_val(evaluate_lazy(r[1]))))
        except Exception as e:  # noqa: BLE001
            values.append(Err(e))
    statuses = [r if isinstance(r, Err) else "ok" for r in results]
    return [statuses, log0, values, log.read(), _graph_obs(tg, with_deps=True) if tg is not None else None]


def _run_blocks(c):
    """ONE lazy pipeline object, several phases: requests outside any block / inside successive construct_dag() blocks;
    deferred results of earlier phases are supplied to later ones.  Nodes are numbered in creation order over the whole
    history (every _LazyFunction created is recorded), so the graphs of the blocks can be compared with each other."""
    import contextlib

    from pipefunc.lazy import _LazyFunction, construct_dag, evaluate_lazy

    try:
        b = pipegen.build(c["p"], lazy=True)
    except Exception:  # noqa: BLE001
        return ["bad-case"]
    pl, log = b.pipeline, b.log
    created = []
    orig_init = _LazyFunction.__init__

    def rec_init(self, *a, **k):
        orig_init(self, *a, **k)
        created.append(self)

    results, blocks, nreq = [], [], 0
    _LazyFunction.__init__ = rec_init
    try:
        for dag, reqs in c["phases"]:
            lo = len(created)
            with (construct_dag() if dag else contextlib.nullcontext()) as tg:
                def mat(v):
                    if isinstance(v, dict) and "res" in v:
                        j = v["res"]
                        ok = j < len(results) and not isinstance(results[j], Err) and not flat[j][2]
                        return results[j][1] if ok else "none"
                    if isinstance(v, dict):
                        items = [mat(x) for x in v["list"]]
                        return tuple(items) if v.get("tuple") else items
                    return v

                flat = [r for _d, rs in c["phases"] for r in rs]
                for o, kw, full, now in reqs:
                    try:
                        r = pl.run(o, full_output=full, kwargs={k: mat(v) for k, v in kw})
                    except Exception as e:  # noqa: BLE001
                        results.append(Err(e))
                        continue
                    results.append(("ok", r))
                    if now:
                        try:
                            evaluate_lazy(r)
                        except Exception:  # noqa: BLE001
                            pass
            if dag:
                blocks.append((lo, len(created), tg))
    finally:
        _LazyFunction.__init__ = orig_init
    log0 = log.read()
    values = []
    for r in results:
        if isinstance(r, Err):
            values.append(None)
            continue
        try:
            values.append(Ok(_val(evaluate_lazy(r[1]))))
        except Exception as e:  # noqa: BLE001
            values.append(Err(e))
    statuses = [r if isinstance(r, Err) else "ok" for r in results]
    pos = {id(x): k for k, x in enumerate(created)}
    labels = []
    for lf in created:
        name = getattr(lf.func, "__name__", None)
        labels.append(name if name is not None and not lf.args else "pick:" + str(lf.args[1]))

    def walk(v, acc):
        if isinstance(v, _LazyFunction):
            acc.add(pos.get(id(v), 10**6))
        elif isinstance(v, (list, tuple, set)):
            for x in v:
                walk(x, acc)
        elif isinstance(v, dict):
            for x in v.values():
                walk(x, acc)

    deps = []
    for lf in created:
        a = set()
        for v in [*lf.args, *lf.kwargs.values()]:
            walk(v, a)
        deps.append(sorted(a))
    bl = []
    for lo, hi, tg in blocks:
        def node(i, lo=lo, tg=tg):
            if i in tg.mapping:
                return pos.get(id(tg.mapping[i]), 10**6)
            cands = [k for k, x in enumerate(created[:lo]) if x._id == i]      # an object of an earlier phase
            return cands[-1] if cands else 10**6
        bl.append([lo, hi, sorted([node(a), node(b_)] for a, b_ in tg.graph.edges)])
    return [statuses, log0, values, log.read(), [labels, bl, deps]]


def run_impl(c):
    from pipefunc.lazy import construct_dag, evaluate_lazy

    if c.get("kind") == "seq":
        return _run_seq(c)
    if c.get("kind") == "blocks":
        return _run_blocks(c)

    drop = c.get("drop")
    tmp = None
    try:
        if drop:
            # the deferred object outlives its pipeline: built inside a factory on a FRESH pipeline object (no function
            # of it has been called), the pipeline is dropped and collected before evaluate(); "pickle": the deferred
            # object additionally goes through a cloudpickle round trip (calls are then logged to a file)
            flog = None
            if drop == "pickle":
                import os
                import tempfile

                from ..symfuncs import FileLog
                fd_, tmp = tempfile.mkstemp(prefix="c18log")
                os.close(fd_)
                flog = FileLog(tmp)
            b = pipegen.build(c["p"], log=flog, lazy=True)
        else:
            b = pipegen.build_cached(c["p"], slot="lazy", lazy=True)
    except Exception:  # noqa: BLE001
        return ["bad-case"]
    pl, log = b.pipeline, b.log
    kw = dict(c["kw"])
    tg = None
    try:
        if c["dag"]:
            with construct_dag() as tg:
                r = pl.run(c["o"], full_output=c["full"], kwargs=kw)
        else:
            r = pl.run(c["o"], full_output=c["full"], kwargs=kw)
    except Exception as e:  # noqa: BLE001
        return [Err(e)]
    log0 = log.read()
    if drop:
        import gc
        del pl, b
        gc.collect()
        if drop == "pickle":
            import cloudpickle
            r = cloudpickle.loads(cloudpickle.dumps(r))
            gc.collect()

    def ev():
        try:
            return Ok(_val(evaluate_lazy(r)))
        except Exception as e:  # noqa: BLE001
            return Err(e)

    v1 = ev()
    log1 = log.read()
    v2 = ev()
    log2 = log.read()
    g = None
    if tg is not None:
        ids = sorted(tg.graph.nodes)
        pos = {i: k for k, i in enumerate(ids)}
        labels = []
        for i in ids:
            lf = tg.mapping[i]
            name = getattr(lf.func, "__name__", None)
            labels.append(name if name is not None and not lf.args else "pick:" + str(lf.args[1]))
        g = [labels, sorted([pos[a], pos[b]] for a, b in tg.graph.edges)]
    if tmp is not None:
        import os
        with __import__("contextlib").suppress(OSError):
            os.unlink(tmp)
    return ["ok", log0, v1, log1, v2, log2, g]


def generate(rng, tier, mult):
    n_pipes = (40 if tier == "quick" else 1000) * mult
    cases = []
    n_diamonds = (8 if tier == "quick" else 100) * mult
    for k in range(n_pipes + n_diamonds):
        if k < n_diamonds:      # a node whose value is None shared by >= 2 consumers
            pd = pipegen.gen_none_diamond(rng)
        else:
            pd = pipegen.gen_pipeline(rng, none_prob=rng.choice([0.0, 0.0, 0.2, 0.4]))
        if rng.random() < 0.5:
            q = list(pd["funcs"])
            rng.shuffle(q)
            pd = {"funcs": q}
        for o in pipegen.outputs_of(pd):
            for tag, kw in c02.calls_for(rng, pd, o, budget=2 if tier == "quick" else 4):
                cases.append({"p": pd, "o": o, "kw": kw, "full": rng.random() < 0.35, "dag": rng.random() < 0.5,
                              "tag": tag})
                if rng.random() < 0.3:      # the same request, but the deferred object outlives its pipeline
                    cases.append({"p": pd, "o": o, "kw": kw, "full": rng.random() < 0.35, "dag": rng.random() < 0.3,
                                  "tag": tag, "drop": rng.choice(["gc", "gc", "pickle"])})
        if k >= n_diamonds and rng.random() < 0.5:
            cases += _seq_cases(rng, pd, 2)
    for _ in range((12 if tier == "quick" else 150) * mult):
        cases += _seq_cases(rng, _gen_tuple_share(rng), 3)
    return cases


def _gen_tuple_share(rng):
    """A tuple-output function whose members are consumed one at a time by different functions."""
    k = rng.choice([2, 2, 3])
    outs = [f"o{j}" for j in range(k)]
    roots = rng.sample(pipegen.ROOTS, rng.randint(1, 2))
    funcs = [{"name": "f0", "outs": outs, "params": [[r, r] for r in roots], "sigd": {}, "defs": {}, "bound": {}}]
    funcs.append({"name": "f1", "outs": ["o5"], "params": [[outs[0], outs[0]]], "sigd": {}, "defs": {}, "bound": {}})
    p2 = [[outs[1], outs[1]], ["o5", "o5"]]
    if rng.random() < 0.4:
        p2.append([rng.choice(pipegen.ROOTS), "q"])
    funcs.append({"name": "f2", "outs": ["o6"], "params": p2, "sigd": {}, "defs": {}, "bound": {}})
    if rng.random() < 0.5:
        funcs.append({"name": "f3", "outs": ["o7", "o8"], "params": [["o6", "o6"], [outs[-1], outs[-1]]],
                      "sigd": {}, "defs": {}, "bound": {}})
    rng.shuffle(funcs)
    return {"funcs": funcs}


def _seq_cases(rng, pd, n):
    """Sequences of requests to one lazy pipeline object: same root values (shared nodes through the caches), a
    changed root value, a surplus / missing keyword, full_output, evaluation in between."""
    try:
        pl = pipegen.build_cached(pd, slot="gen").pipeline
        roots_of = {o: list(pl.root_args(o)) for o in pipegen.outputs_of(pd)}
    except Exception:  # noqa: BLE001
        return []
    outs = pipegen.outputs_of(pd)
    tuple_members = [o for f in pd["funcs"] if len(f["outs"]) > 1 for o in f["outs"]]
    cases = []
    for _ in range(n):
        dag = rng.random() < 0.6
        q = {"funcs": [dict(f, cached=(rng.random() < (0.2 if dag else 0.75))) for f in pd["funcs"]]}
        m = rng.choice([2, 2, 3])
        reqs = []
        for j in range(m):
            if j == 0 and tuple_members and rng.random() < 0.4:
                o = rng.choice(tuple_members)
            elif j > 0 and rng.random() < 0.25:
                o = reqs[0][0]                      # the same output again
            else:
                o = rng.choice(outs)
            kw = [[n_, "v_" + n_] for n_ in roots_of[o]]
            if rng.random() < 0.15:                  # an argument combination with supplied intermediates
                try:
                    kw = [[n_, "v_" + n_] for n_ in rng.choice(sorted(pl.arg_combinations(o)))]
                except Exception:  # noqa: BLE001
                    pass
            r = rng.random()
            if r < 0.1 and kw:
                kw[rng.randrange(len(kw))][1] = "other"          # another value: no sharing for what depends on it
            elif r < 0.17:
                kw.append(["junk", "v_junk"])
            elif r < 0.24 and kw:
                kw.pop(rng.randrange(len(kw)))
            if j > 0 and kw and rng.random() < 0.6:
                # keyword values that are deferred results of earlier requests: bare, in a list / tuple, nested deeper
                for _k in range(rng.choice([1, 1, 2])):
                    slot = rng.randrange(len(kw))
                    ref = {"res": rng.randrange(j)}
                    r2 = rng.random()
                    if r2 < 0.25:
                        val = ref
                    elif r2 < 0.85:
                        items = [ref] + [rng.choice(["k", {"res": rng.randrange(j)}]) for _x in range(rng.randint(0, 2))]
                        rng.shuffle(items)
                        val = {"list": items, "tuple": rng.random() < 0.4}
                    else:
                        val = {"list": [{"list": [ref], "tuple": rng.random() < 0.5}, "k"], "tuple": False}
                    kw[slot][1] = val
            rng.shuffle(kw)
            reqs.append([o, kw, rng.random() < 0.2, rng.random() < 0.3])
        cases.append({"kind": "seq", "p": q, "dag": dag, "reqs": reqs})
        if len(reqs) >= 2:
            # the same requests as a HISTORY of phases: outside any block first / successive construct_dag() blocks;
            # the later requests get deferred results of earlier phases (bare or in containers)
            cut = rng.randint(1, len(reqs) - 1)
            first_dag = rng.random() < 0.5
            phases = [[first_dag, reqs[:cut]], [True, reqs[cut:]]]
            if len(reqs) - cut >= 2 and rng.random() < 0.4:
                phases = [[first_dag, reqs[:cut]], [True, reqs[cut:cut + 1]], [True, reqs[cut + 1:]]]
            import copy
            phases = copy.deepcopy(phases)
            later = [r for _d, rs in phases[1:] for r in rs if r[1]]
            if later and rng.random() < 0.8:        # make sure an object of an EARLIER phase is supplied to a later block
                r = rng.choice(later)
                ref = {"res": rng.randrange(cut)}
                r[1][rng.randrange(len(r[1]))][1] = rng.choice([ref, {"list": [ref, "k"], "tuple": rng.random() < 0.5},
                                                                {"list": [{"list": [ref], "tuple": False}], "tuple": False}])
            cases.append({"kind": "blocks", "p": q, "phases": phases})
    return cases


def nontrivial_key(c):
    fs = c["p"]["funcs"]
    if c.get("kind") == "seq":
        return ("seq", c["p"], c["dag"], c["reqs"])
    if c.get("kind") == "blocks":
        return ("blocks", c["p"], c["phases"])
    if len(fs) >= 2 or any(len(f["outs"]) > 1 for f in fs):
        return (c["p"], c["o"], c["kw"], c["full"], c["dag"], c.get("drop"))
    return None


def distribution(c):
    if c.get("kind") == "blocks":
        return {"kind": "blocks", "phases": "".join("D" if d else "o" for d, _r in c["phases"]),
                "xref": sum(1 for _d, rs in c["phases"] for r in rs for _k, v in r[1] if isinstance(v, dict))}
    if c.get("kind") == "seq":
        return {"kind": "seq" + ("-dag" if c["dag"] else "-lru"), "nreq": len(c["reqs"]),
                "cached": sum(1 for f in c["p"]["funcs"] if f.get("cached"))}
    return {"nfuncs": len(c["p"]["funcs"]), "tag": c.get("tag", ""), "flags": f"{'F' if c['full'] else ''}{'D' if c['dag'] else ''}", "drop": c.get("drop") or ""}


def finding_id(c, impl_obs, kind):
    """No known finding is left for C18 (c18-nested-container-dependency-not-recorded is repaired)."""
    return None


def shrink(c):
    out = []
    fs = c["p"]["funcs"]
    for j in range(len(fs)):
        d = dict(c)
        d["p"] = {"funcs": fs[:j] + fs[j + 1:]}
        out.append(d)
    if c.get("kind") == "blocks":
        return out
    if c.get("kind") == "seq":
        for j in range(len(c["reqs"])):
            if len(c["reqs"]) > 1:
                d = dict(c)
                d["reqs"] = c["reqs"][:j] + c["reqs"][j + 1:]
                out.append(d)
        return out
    for j in range(len(c["kw"])):
        d = dict(c)
        d["kw"] = c["kw"][:j] + c["kw"][j + 1:]
        out.append(d)
    return out
