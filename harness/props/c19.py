"""C19 - xarray datasets label results with the right dimensions and coordinates."""
from __future__ import annotations

import contextlib
import io
import json

from .. import mapgen, mapsym
from ..coqlit import Err, cbool, clist, cnat

PROP = "C19"
RUN = "Run_C19"
THEOREMS = "Props/C19.v"
ANCHORS = [
    ("pipefunc/map/xarray.py", ["_xarray", "_xarray_dataset", "xarray_dataset_from_results", "load_xarray_dataset",
                                "_data_loader"]),
    ("pipefunc/map/_mapspec.py", ["trace_dependencies", "_trace_dependencies", "mapspec_axes"]),
    ("pipefunc/map/_load.py", ["load_xarray_dataset", "load_outputs"]),
]
RULE = ("valid map requests of harness/mapgen.py (DAGs of 1..4 structural functions, zip / outer product / ':' "
        "reductions / internal axes at any position / mapped functions without any mapped axis / generators / unmapped "
        "functions / tuple outputs, every storage) whose root inputs are 1-D or 2-D with distinct values; user-level lists "
        "whose generator MapSpecs are left to pipefunc (auto-generated, functions handed over in a random order); two "
        "independent sub-pipelines sharing index names; unmapped functions returning ndarrays; a partially reduced "
        "intermediate whose reduced axis name is re-used by a sibling input (equal and unequal lengths, on every seed); "
        "hand-written corner cases; 'rerun' cases: the observed run is the SECOND run into a folder that already holds a "
        "run of the same pipeline with same-shaped other inputs, a dataset having been loaded in between (same process); "
        "each with load_intermediate on or off; both xarray_dataset_from_results and load_xarray_dataset are built from a "
        "real run folder; kind 0 compares variables, dims, values, coordinates, identical(), and .sel() on every "
        "single-source 1-D coordinate value; kind 1 is .sel() on zipped coordinates; every observation also carries "
        "[valid, known-finding region] which the model recomputes (valid_req, region_req); non-trivial = some coordinate "
        "exists; distinct by (specs, shapes, load_intermediate, kind, order)")
ASSUMPTIONS = [
    "xarray/pandas object construction (xr.DataArray, xr.merge(compat='override'), Dataset.__setitem__, "
    "Dataset.__getitem__ attaching every coordinate whose dims are a subset, pd.MultiIndex.from_arrays becoming an "
    "object array of tuples, .sel() building a PandasIndex on the fly for a 1-D non-index coordinate) is library "
    "behaviour: observed on the real objects, not modelled (the property is partial in that sense)",
    "values of the variables are those of C01's model (Model/MapRun.v, sequential semantics) with structural bodies",
    "unmapped functions return scalars or ndarrays (never lists); reprs, dtypes and attrs are never compared",
    "user-level lists: the auto-generated MapSpecs are those of Model/AutoGen.construct (C01's model of Pipeline.add)",
]
TRUSTED = ["Model/XrLabel.v mirrors trace_dependencies/_trace_dependencies/mapspec_axes/_xarray/_xarray_dataset by hand; "
           "tie = per-run differential execution against real xarray.Dataset objects",
           "harness/mapsym.py structural functions and array canonicalisation; harness/mapgen.py request generator"]

ZSEL = "C19-zipped-coordinate-not-selectable"
CONFLICT = "C19-axis-name-reused-with-different-sizes"
PLAIN = "C19-unmapped-array-output-not-storable"


# ------------------------------------------------------------------ Coq literal
def emit_case(c) -> str:
    return "{| c_funcs := %s; c_inputs := %s; c_internal := %s; c_li := %s; c_kind := %s; c_order := %s |}" % (
        clist([mapgen.func_lit(f) for f in c["funcs"]]), mapgen._env(c["inputs"]),
        mapgen.shapes_lit(c.get("internal")), cbool(bool(c["li"])), cnat(int(c["kind"])),
        clist([cnat(i) for i in (c.get("order") or [])]))


# ------------------------------------------------------------------ observation of a real xarray.Dataset
def _is_tuple_coord(co):
    import pandas as pd

    try:
        if isinstance(co.to_index(), pd.MultiIndex):
            return True
    except Exception:  # noqa: BLE001
        pass
    vals = co.values
    return vals.ndim == 1 and len(vals) > 0 and all(isinstance(v, tuple) for v in vals)


def _ds_obs(ds, kind):
    vars_ = sorted([str(n), [str(d) for d in ds[n].dims], mapsym.arr_obs(ds[n].values)] for n in ds.data_vars)
    coords = sorted([str(n), [str(d) for d in ds.coords[n].dims], mapsym.arr_obs(ds.coords[n].values)]
                    for n in ds.coords)
    sels = []
    for n in sorted(str(v) for v in ds.data_vars):
        da = ds[n]
        for cn in sorted(str(x) for x in da.coords):
            co = da.coords[cn]
            if co.ndim != 1:
                continue
            if _is_tuple_coord(co) != (kind == 1):
                continue
            dim = co.dims[0]
            res = []
            for m, v in enumerate(co.values):
                try:
                    got = da.sel({cn: v})
                    want = da.isel({dim: m})
                    res.append(bool(tuple(got.dims) == tuple(want.dims)
                                    and mapsym.arr_obs(got.values) == mapsym.arr_obs(want.values)))
                except Exception as e:  # noqa: BLE001
                    res.append("err:" + type(e).__name__)
            sels.append([n, cn, res])
    return vars_, coords, sels


_cache = {}


def _run_request(c):
    """Run the request once (for both kinds): returns {kind: observation}."""
    from pipefunc.map import load_xarray_dataset
    from pipefunc.map.xarray import xarray_dataset_from_results

    key = json.dumps({k: c.get(k) for k in ("funcs", "inputs", "internal", "storage", "li", "order", "rerun")},
                     sort_keys=True)
    if key in _cache:
        return _cache[key]
    _cache.clear()
    out = {}
    log = mapsym.CallLog()
    sink = io.StringIO()
    with contextlib.redirect_stdout(sink):
        try:
            if c.get("order"):   # user-level list: Pipeline([...]) in this order generates the missing MapSpecs
                p = mapsym.build_pipeline(dict(c, funcs=[c["funcs"][i] for i in c["order"]]), log)
            else:
                p = mapsym.build_pipeline(c, log)
            with mapsym.TempRun() as d:
                if c.get("rerun"):
                    # an EARLIER run of the same pipeline into the same folder, in this process, with inputs of the
                    # same shapes but other values, and a dataset loaded from the folder in between: the datasets
                    # observed below must be those of the LATER run (nothing of the earlier one may survive in a cache)
                    _earlier_run(c, p, d)
                inputs = mapsym.map_inputs(c)
                r = p.map(inputs, run_folder=d, internal_shapes=mapsym.internal_arg(c),
                          storage=c.get("storage", "dict"), parallel=False)
                li = bool(c["li"])
                ds1 = xarray_dataset_from_results(inputs, r, p, load_intermediate=li)
                ds2 = load_xarray_dataset(run_folder=d, load_intermediate=li)
                ident = bool(ds1.identical(ds2))
                for kind in (0, 1):
                    o1 = _ds_obs(ds1, kind)
                    o2 = _ds_obs(ds2, kind)
                    same = o1 == o2
                    vars_, coords, sels = o1
                    if kind == 1:
                        vars_, coords = [], []
                    # [the request is valid, this observation is classified as a known finding]
                    out[kind] = ["ok", [True, kind == 1 and len(sels) > 0], ident, same, vars_, coords, sels]
        except Exception as e:  # noqa: BLE001
            out = {0: Err(e), 1: Err(e)}
    _cache[key] = out
    return out


def _other_values(c):
    """The inputs of the request with the same names and shapes but different values."""
    out = []
    for k, v in c["inputs"]:
        if isinstance(v, dict):
            out.append([k, dict(v, d=["p" + x for x in v["d"]])])
        else:
            out.append([k, "p" + v])
    return out


def _earlier_run(c, p, d):
    from pipefunc.map import load_outputs, load_xarray_dataset

    inputs0 = mapsym.map_inputs(dict(c, inputs=_other_values(c)))
    p.map(inputs0, run_folder=d, internal_shapes=mapsym.internal_arg(c), storage=c.get("storage", "dict"),
          parallel=False)
    for li in (True, False):
        try:
            load_xarray_dataset(run_folder=d, load_intermediate=li)
        except Exception:  # noqa: BLE001  (a request in a known-finding region has no dataset)
            pass
    outs = [o for f in c["funcs"] for o in f["outs"]]
    if outs:
        load_outputs(outs[-1], run_folder=d)


def run_impl(c):
    return _run_request(c)[int(c["kind"])]


# ------------------------------------------------------------------ generator
def _arr(name, sh, as_="nd"):
    n = 1
    for d in sh:
        n *= d
    return [name, {"sh": list(sh), "d": [f"{name}_{t}" for t in range(n)], "as": as_}]


def _fn(name, outs, ins, oax, extra=(), **kw):
    fd = {"name": name, "outs": list(outs), "params": [a for a, _ in ins] + list(extra),
          "spec": {"i": [[a, list(ax)] for a, ax in ins], "o": [[o, list(oax)] for o in outs]},
          "int": [], "bound": [], "defaults": []}
    fd.update(kw)
    return fd


def _single(name, outs, params):
    return {"name": name, "outs": list(outs), "params": list(params), "spec": None, "int": [], "bound": [], "defaults": []}


def _gen(name, outs, ax, ish, params=()):
    return {"name": name, "outs": list(outs), "params": list(params), "spec": {"i": [], "o": [[o, list(ax)] for o in outs]},
            "int": list(ish), "ret": list(ish), "bound": [], "defaults": []}


def corner_requests():
    """Hand-written requests: the witnesses of the repaired defects and the shapes named in the property."""
    R = []
    # ':' on the first axis only (mapspec_axes KeyError before the fix), on the last axis only, zipped with a 1-D input
    R.append({"funcs": [_fn("f", ["y"], [["x", [None, "j"]]], ["j"])], "inputs": [_arr("x", [2, 2])]})
    R.append({"funcs": [_fn("f", ["y"], [["x", ["i", None]]], ["i"])], "inputs": [_arr("x", [2, 2])]})
    R.append({"funcs": [_fn("f", ["y"], [["x", ["k", None]], ["z", ["k"]]], ["k"])],
              "inputs": [_arr("x", [2, 2]), _arr("z", [2], "list")]})
    # two 2-D inputs zipped on both axes (MultiIndex.from_arrays with 2-D arrays before the fix); transposed output
    R.append({"funcs": [_fn("f", ["y"], [["a", ["i", "j"]], ["b", ["i", "j"]]], ["i", "j"])],
              "inputs": [_arr("a", [2, 2]), _arr("b", [2, 2])]})
    R.append({"funcs": [_fn("f", ["y"], [["a", ["i", "j"]]], ["j", "i"])], "inputs": [_arr("a", [2, 3])]})
    # zip + outer product + chain through element-wise functions + reduction + unmapped function
    R.append({"funcs": [_fn("f", ["y"], [["x", ["i"]], ["z", ["i"]]], ["i"]),
                        _fn("g", ["w"], [["y", ["i"]], ["u", ["j"]]], ["i", "j"]),
                        _fn("h", ["r"], [["w", ["i", None]]], ["i"]),
                        _single("t", ["s"], ["r"])],
              "inputs": [_arr("x", [3], "list"), _arr("z", [3]), _arr("u", [2], "list")]})
    # the same axis labelled by different sets of inputs for different outputs: coordinates "x" and "x:z"
    R.append({"funcs": [_fn("f", ["y"], [["x", ["i"]]], ["i"]),
                        _fn("g", ["w"], [["y", ["i"]], ["z", ["i"]]], ["i"]),
                        _fn("h", ["v"], [["z", ["i"]], ["x", ["i"]], ["b", ["i"]]], ["i"])],
              "inputs": [_arr("x", [2], "list"), _arr("z", [2], "list"), _arr("b", [2])]})
    # a 2-D input used along one axis only by the final output; a 1-D input named in one place, ':' in another
    R.append({"funcs": [_fn("f", ["y"], [["x", ["i", "j"]]], ["i", "j"]),
                        _fn("g", ["z"], [["y", ["i", None]]], ["i"]),
                        _fn("h", ["q"], [["u", ["k"]]], ["k"]),
                        _fn("e", ["p"], [["u", [None]], ["z", ["i"]]], ["i"])],
              "inputs": [_arr("x", [2, 3]), _arr("u", [2], "list")]})
    # generator outputs: coordinates of their consumers iff load_intermediate; tuple outputs; internal axis
    R.append({"funcs": [_gen("g", ["v"], ["n0"], [3]),
                        _fn("f", ["y"], [["v", ["n0"]], ["x", ["i"]]], ["n0", "i"]),
                        _fn("h", ["a", "b"], [["y", ["n0", "i"]]], ["i", "n0"])],
              "inputs": [_arr("x", [2], "list")]})
    R.append({"funcs": [_gen("g", ["v", "v2"], ["n0", "n1"], [2, 2]),
                        _fn("f", ["y"], [["v", ["n0", "n1"]]], ["n0", "n1"]),
                        _fn("h", ["z"], [["v2", ["n0", None]]], ["n0"])],
              "inputs": []})
    R.append({"funcs": [_fn("f", ["y"], [["x", ["i"]]], ["i", "n0"], **{"int": [2], "ret": [2]}),
                        _fn("g", ["z"], [["y", ["i", "n0"]], ["x", ["i"]]], ["i", "n0"])],
              "inputs": [_arr("x", [3], "list")]})
    R.append({"funcs": [_fn("f", ["y"], [["x", ["i"]]], ["n0", "i"], **{"int": [2], "ret": [2]}),
                        _fn("g", ["z"], [["y", [None, "i"]]], ["i"])],
              "inputs": [_arr("x", [3], "list")]})
    # scalar inputs, defaults, an output that nothing consumes, a single element axis
    R.append({"funcs": [_fn("f", ["y"], [["x", ["i"]]], ["i"], extra=["c"]), _single("t", ["s"], ["c"])],
              "inputs": [_arr("x", [1], "list"), ["c", "C"]]})
    # an index name shared by two independent sub-pipelines: equal sizes (fine) and different sizes (known finding)
    R.append({"funcs": [_fn("f", ["y"], [["x", ["i"]]], ["i"]), _fn("g", ["w"], [["u", ["i"]]], ["i"])],
              "inputs": [_arr("x", [2]), _arr("u", [2], "list")]})
    R.append({"funcs": [_fn("f", ["y"], [["x", ["i"]]], ["i"]), _fn("g", ["w"], [["u", ["i"]]], ["i"])],
              "inputs": [_arr("x", [3]), _arr("u", [2], "list")]})
    R.append({"funcs": [_fn("f", ["y"], [["x", ["i"]]], ["i"]), _gen("g", ["v"], ["i"], [2])],
              "inputs": [_arr("x", [3], "list")]})
    # functions without MapSpec that return ndarrays of rank 1 and 2
    R.append({"funcs": [_fn("f", ["y"], [["x", ["i"]]], ["i"]), dict(_single("g", ["s"], ["y"]), ret=[3])],
              "inputs": [_arr("x", [2], "list")]})
    R.append({"funcs": [_fn("f", ["y"], [["x", ["i"]]], ["i"]), dict(_single("g", ["s"], ["y"]), ret=[2, 2])],
              "inputs": [_arr("x", [2], "list")]})
    # user-level lists: the producer's MapSpec is generated by pipefunc ('... -> a[unnamed_0, j]', '... -> v[n0]')
    R.append({"funcs": [dict(_single("g", ["a"], []), ret=[2, 3], int=[2, 3]),
                        _fn("h", ["r"], [["a", [None, "j"]]], ["j"]),
                        _fn("e", ["w"], [["r", ["j"]], ["x", ["j"]]], ["j"])],
              "inputs": [_arr("x", [3], "list")], "order": [2, 0, 1]})
    R.append({"funcs": [dict(_single("g", ["v", "v2"], []), ret=[3], int=[3]),
                        _fn("h", ["w"], [["v", ["n0"]], ["x", ["i"]]], ["i", "n0"]),
                        _fn("e", ["p"], [["v2", [None]], ["x", ["i"]]], ["i"])],
              "inputs": [_arr("x", [2], "list")], "order": [1, 2, 0]})
    for r in R:
        r.setdefault("internal", [])
        r.setdefault("storage", "dict")
    return R


def _in_scope(c):
    if mapgen.request_size(c) > 30:
        return False
    for _, v in c["inputs"]:
        if isinstance(v, dict):
            if len(v["sh"]) > 2 or len(set(v["d"])) != len(v["d"]):
                return False
    return True


def _may_zip(c):
    for f in c["funcs"]:
        sp = f.get("spec")
        if sp and len(sp["i"]) >= 2:
            seen = set()
            for _, ax in sp["i"]:
                named = {a for a in ax if a}
                if named & seen:
                    return True
                seen |= named
    return False


def _rename_request(c, suf):
    """A copy of the request with every array / function / parameter / internal-axis name suffixed (index names
    i, j, k, m are kept: they are what two independent sub-pipelines may share)."""
    def rn(n):
        return n + suf

    def rax(ax):
        return [None if a is None else (a if a in mapgen.IDX else rn(a)) for a in ax]

    out = {"funcs": [], "inputs": [], "internal": [[rn(k), list(v)] for k, v in (c.get("internal") or [])],
           "storage": c.get("storage", "dict")}
    for fd in c["funcs"]:
        g = json.loads(json.dumps(fd))
        g["name"] = rn(fd["name"])
        g["outs"] = [rn(o) for o in fd["outs"]]
        g["params"] = [rn(p_) for p_ in fd["params"]]
        if fd.get("spec"):
            g["spec"] = {"i": [[rn(a), rax(ax)] for a, ax in fd["spec"]["i"]],
                         "o": [[rn(a), rax(ax)] for a, ax in fd["spec"]["o"]]}
        g["bound"] = [[rn(k), v] for k, v in fd.get("bound") or []]
        g["defaults"] = [[rn(k), v] for k, v in fd.get("defaults") or []]
        out["funcs"].append(g)
    for k, v in c["inputs"]:
        if isinstance(v, dict):
            out["inputs"].append([rn(k), {"sh": list(v["sh"]), "d": [rn(k) + "_" + str(t) for t in range(len(v["d"]))],
                                          "as": v.get("as", "nd")}])
        else:
            out["inputs"].append([rn(k), v + suf])
    return out


def _two_pipelines(rng, storages):
    """Two independent sub-pipelines in one Pipeline that share index names (possibly with different sizes)."""
    while True:
        a = mapgen.gen_request(rng, max_funcs=2, max_rank=2, storages=storages)
        b = mapgen.gen_request(rng, max_funcs=2, max_rank=2, storages=storages)
        if _in_scope(a) and _in_scope(b) and mapgen.request_size(a) + mapgen.request_size(b) <= 30:
            break
    b = _rename_request(b, "b")
    return {"funcs": a["funcs"] + b["funcs"], "inputs": a["inputs"] + b["inputs"],
            "internal": (a.get("internal") or []) + (b.get("internal") or []), "storage": a["storage"]}


def _plain_arrays(c, rng):
    """Let some functions without MapSpec return ndarrays (rank 1 or 2): 'plain array variables'."""
    c = json.loads(json.dumps(c))
    for fd in c["funcs"]:
        if fd.get("spec") is None and rng.random() < 0.6:
            fd["ret"] = [rng.randint(1, 3) for _ in range(rng.choice([1, 1, 2]))]
    return c


def _shapes(c):
    """Shapes of all arrays of the request (root inputs and outputs), by propagation through the MapSpecs."""
    sh = {k: list(v["sh"]) for k, v in c["inputs"] if isinstance(v, dict)}
    user = {k: list(v) for k, v in (c.get("internal") or [])}
    for fd in c["funcs"]:
        sp = fd.get("spec")
        if not sp:
            continue
        size = {}
        for a, ax in sp["i"]:
            for pos, nm in enumerate(ax):
                if nm is not None and a in sh:
                    size[nm] = sh[a][pos]
        for o, ax in sp["o"]:
            internal = list(user.get(o) or fd.get("int") or fd.get("ret") or [])
            dims = []
            for nm in ax:
                if nm in size:
                    dims.append(size[nm])
                else:
                    dims.append(internal.pop(0) if internal else -1)
            sh[o] = dims
    return sh


def _axis_conflict(c):
    """Is some index name used with two different sizes (by arrays that are never zipped together)?"""
    sh = _shapes(c)
    sizes = {}
    for fd in c["funcs"]:
        sp = fd.get("spec")
        if not sp:
            continue
        for a, ax in sp["i"] + sp["o"]:
            for pos, nm in enumerate(ax):
                if nm is not None and a in sh and pos < len(sh[a]):
                    sizes.setdefault(nm, set()).add(sh[a][pos])
    return any(len(v) > 1 for v in sizes.values())


def _reduced_name_reused(c):
    """Some function takes an axis of a computed array with ':' while a sibling input names an axis like the producer does."""
    produced = {}
    for f in c["funcs"]:
        sp = f.get("spec")
        if sp:
            for o, ax in sp["o"]:
                produced[o] = (ax, bool(sp["i"]))
    for f in c["funcs"]:
        sp = f.get("spec")
        if not sp:
            continue
        for a, ax in sp["i"]:
            if a in produced and produced[a][1]:
                hidden = {produced[a][0][k] for k, nm in enumerate(ax) if nm is None and k < len(produced[a][0])}
                named = {nm for b, bx in sp["i"] if b != a for nm in bx if nm}
                if hidden & named:
                    return True
    return False


def _plain_rank(c):
    return max([len(fd.get("ret") or []) for fd in c["funcs"] if fd.get("spec") is None] + [0])


def _cases_of(req, li, rerun=False):
    base = dict(req)
    base["li"] = bool(li)
    if rerun:
        base["rerun"] = True
    out = [dict(base, kind=0)]
    if _may_zip(req):
        out.append(dict(base, kind=1))
    return out


def _reduced_sibling(rng, equal=None, swap=None):
    """A partially reduced INTERMEDIATE whose reduced axis name is re-used by a sibling input of the same function:
         a[i], b[j] -> x[i, j] ;  x[i, :], c[j] -> z[i, j]
    z depends on c (not on b) along j.  len(c) == len(b) (only the labels can tell the difference) or != (the index
    name j then has two sizes: the known finding, but never a MultiIndex of arrays of different lengths)."""
    ni, nj = rng.randint(1, 3), rng.randint(2, 3)
    if equal is None:
        equal = rng.random() < 0.65
    nc = nj if equal else rng.choice([n for n in (1, 2, 3, 4) if n != nj])
    if swap is None:
        swap = rng.random() < 0.4
    red, keep, nkeep = ("i", "j", nj) if swap else ("j", "i", ni)   # the axis of x that g reduces / keeps
    nred_in = ni if swap else nj
    if swap:   # x[:, j], c[i] -> z : reduce i, c re-uses the name i
        sizes_ab = (ni, nj)
        x_in = [None, "j"]
    else:
        sizes_ab = (ni, nj)
        x_in = ["i", None]
    del nkeep, nred_in
    funcs = [_fn("f", ["x"], [["a", ["i"]], ["b", ["j"]]], ["i", "j"])]
    g_ins = [["x", x_in], ["c", [red]]]
    inputs = [_arr("a", [sizes_ab[0]], rng.choice(["list", "nd"])), _arr("b", [sizes_ab[1]], rng.choice(["list", "nd"])),
              _arr("c", [nc], rng.choice(["list", "nd"]))]
    if rng.random() < 0.3:     # a second sibling zipped with c
        g_ins.append(["d", [red]])
        inputs.append(_arr("d", [nc], "list"))
    rng.shuffle(g_ins)
    oax = [keep, red]
    if rng.random() < 0.4:
        oax.reverse()
    outs = ["z"] if rng.random() < 0.7 else ["z", "z2"]
    funcs.append(_fn("g", outs, g_ins, oax))
    u = rng.random()
    if u < 0.3:
        funcs.append(_fn("h", ["w"], [["z", list(oax)]], list(oax)))
    elif u < 0.5:
        funcs.append(_fn("h", ["w"], [["z", [a if a == red else None for a in oax]]], [red]))
    return {"funcs": funcs, "inputs": inputs, "internal": [],
            "storage": rng.choice(["dict", "dict", "file_array", "shared_memory_dict"])}


def generate(rng, tier, mult):
    import random as _random

    n = (85 if tier == "quick" else 2200) * mult
    out = []
    for q, r in enumerate(corner_requests()):
        for li in (True, False):
            out += _cases_of(r, li)
        if q % 3 == 0:     # ... and as the second run into a folder that already holds another run
            out += _cases_of(r, q % 2 == 0, rerun=True)
    fixed = _random.Random(190)   # the same members of the family on every seed
    for equal, swap in ((True, False), (False, False), (True, True)):
        out += _cases_of(_reduced_sibling(fixed, equal, swap), equal)
    storages = ("dict", "dict", "dict", "file_array", "file_array", "shared_memory_dict")
    k = 0
    while k < n:
        u = rng.random()
        if u < 0.10:
            c = _two_pipelines(rng, storages)
        else:
            c = mapgen.gen_request(rng, max_rank=rng.choice([2, 3, 3]), storages=storages,
                                   allow_zero_ext=rng.random() < 0.5)
            if not _in_scope(c):
                continue
            if u < 0.25:
                c = _plain_arrays(c, rng)
            elif u < 0.80:
                # user-level list: the '... -> v[...]' MapSpec of a consumed generator is left to pipefunc
                a = mapgen.to_user_level(c, rng)
                if a is not None:
                    a.pop("kind", None)
                    if a["order"] == sorted(a["order"]) and rng.random() < 0.5:
                        rng.shuffle(a["order"])
                    c = a
        if rng.random() < 0.07:
            c = _reduced_sibling(rng)
        out += _cases_of(c, rng.random() < 0.5, rerun=rng.random() < 0.2)
        k += 1
    return out


# ------------------------------------------------------------------ evidence helpers
def _has_coord(c):
    return any(f.get("spec") and f["spec"]["i"] for f in c["funcs"])


def nontrivial_key(c):
    if not _has_coord(c):
        return None
    return ([mapsym.spec_str(f.get("spec")) for f in c["funcs"]],
            [v["sh"] if isinstance(v, dict) else 0 for _, v in c["inputs"]], c["li"], c["kind"], c.get("order") or [],
            bool(c.get("rerun")))


def distribution(c):
    kinds = sorted({"map" if (f.get("spec") and f["spec"]["i"]) else ("gen" if f.get("spec") else "single")
                    for f in c["funcs"]})
    ranks = sorted({len(v["sh"]) for _, v in c["inputs"] if isinstance(v, dict)})
    return {"kind": c["kind"], "li": c["li"], "nfuncs": len(c["funcs"]), "funcs": "+".join(kinds),
            "storage": c.get("storage"), "input_ranks": "".join(map(str, ranks)), "may_zip": _may_zip(c),
            "colon": any(a is None for f in c["funcs"] if f.get("spec") for _, ax in f["spec"]["i"] for a in ax),
            "axis_conflict": _axis_conflict(c), "plain_rank": _plain_rank(c),
            "autogen": bool(c.get("order")), "rerun": bool(c.get("rerun")),
            "reduced_axis_name_reused": _reduced_name_reused(c),
            "zero_mapped_axes": any(f.get("spec") and f["spec"]["i"]
                                    and not any(a for _, ax in f["spec"]["i"] for a in ax) for f in c["funcs"]),
            "internal_before_mapped": any(
                f.get("ret") and f.get("spec") and f["spec"]["i"]
                and f["spec"]["o"][0][1][0] not in {a for _, ax in f["spec"]["i"] for a in ax}
                for f in c["funcs"])}


def finding_id(c, impl_obs, kind):
    """Known findings:
    - an index name used with two different sizes: xr.merge raises AlignmentError (no dataset at all);
    - a function without MapSpec returning an ndarray of rank >= 2: Dataset.__setitem__ raises MissingDimensionsError;
    - .sel() by the value of a zipped coordinate raises inside xarray (kind 1 only)."""
    if impl_obs == ["err", "OtherError"]:
        if _axis_conflict(c):
            return CONFLICT
        if _plain_rank(c) >= 2:
            return PLAIN
        return None
    if int(c.get("kind", 0)) != 1 or not isinstance(impl_obs, list) or len(impl_obs) != 7 or impl_obs[0] != "ok":
        return None
    sels = impl_obs[6]
    if sels and all(all(x == "err:AssertionError" for x in e[2]) for e in sels):
        return ZSEL
    return None


def shrink(c):
    out = []
    fs = c["funcs"]
    for j in range(len(fs) - 1, -1, -1):
        produced = set(fs[j]["outs"])
        if any(produced & set(g["params"]) for g in fs[j + 1:]):
            continue
        d = json.loads(json.dumps(c))
        d["funcs"] = fs[:j] + fs[j + 1:]
        used = {p for g in d["funcs"] for p in g["params"]}
        d["inputs"] = [kv for kv in d["inputs"] if kv[0] in used]
        outs = {o for g in d["funcs"] for o in g["outs"]}
        d["internal"] = [kv for kv in (d.get("internal") or []) if kv[0] in outs]
        if d["funcs"]:
            out.append(d)
    if c.get("storage") != "dict":
        d = json.loads(json.dumps(c))
        d["storage"] = "dict"
        out.append(d)
    return out
