"""C20 - Resource specifications combine monotonically and without side effects."""
from __future__ import annotations

import json
import re
from fractions import Fraction

from ..coqlit import Err, Ok, clist, cnat, copt, cpair, cstr, cz

PROP = "C20"
RUN = "Run_C20"
THEOREMS = "Props/C20.v"
ANCHORS = [("pipefunc/resources.py",
            ["Resources.__post_init__", "Resources.from_dict", "Resources._is_valid_memory",
             "Resources._convert_to_gb", "Resources._is_valid_wall_time", "Resources._wall_time_to_seconds",
             "Resources.to_slurm_options", "Resources.update", "Resources.combine_max",
             "Resources.with_defaults", "Resources.maybe_with_defaults", "Resources.dict"]),
           ("pipefunc/_pipefunc.py", ["_maybe_max_resources"])]
RULE = ("Resources with counts in -1..8 (+ a few large), memory strings across B..PB in any letter case with integer and "
        "fractional values (<= 6 significant digits, zero padding, families of equal sizes written differently), wall "
        "times across MM:SS / H+:MM:SS / D+:HH:MM:SS with differing digit counts (lexicographic-vs-duration traps, equal "
        "durations written differently), extra_args dicts, partitions incl. '' and blanks; constructor calls with one "
        "injected fault (exclusive combination, non-positive count, mutated memory/time string or one of ~100 hand-written "
        "near misses of the two grammars, each also run once as a corner case); combine_max of 0..4 "
        "operands; update with field keys, extra_args= and free keys in random order; with_defaults / "
        "maybe_with_defaults with and without None; dict/from_dict round trips, from_dict of dicts with unknown keys; "
        "to_slurm_options; _maybe_max_resources (NestedPipeFunc) with 0..4 children, some without resources, with and "
        "without an explicit argument; SEQUENCES of 3-6 operations (create / update / combine_max / with_defaults / "
        "from_dict / dict / to_slurm_options / ==) on a heap of 2-3 shared objects and on their results, where after "
        "every step every live object is observed again (fields, sorted(vars(obj)), obj.update(), to_slurm_options(), "
        "from_dict(dict()) == obj). Operand state is observed after every call. non-trivial = every case except the all-default "
        "constructor and combine_max of < 2 operands; distinct by (kind, canonical JSON of the case)")
ASSUMPTIONS = [
    "typed domain: counts are Python ints (no bools/floats), memory/time/partition are str or None, "
    "parallelization_mode is a str, extra_args maps str to int or str; callable resources are out of scope",
    "ASCII strings only (Python's \\d and str.upper are Unicode aware: e.g. Arabic-Indic digits are accepted by the code)",
    "generated memory strings have <= 6 significant digits (mutated ones, used only for constructor calls, a few "
    "more), so the float arithmetic of the real _convert_to_gb cannot order two "
    "different exact sizes wrongly (relative gap >= 1e-6 vs. float error ~1e-16); the model uses exact rationals. "
    "Equal sizes written differently may be ordered either way by the floats: combine_max results are therefore "
    "observed by exact size only",
    "inside one operation sequence equal memory sizes are written with the same string (the result of combine_max "
    "stays in the heap and its memory string is observed by the later steps)",
    "a 4-component wall time is read as D:HH:MM:SS (property text); 3 components as H:MM:SS; 2 as MM:SS",
]
TRUSTED = ["Model/Resources.v mirrors pipefunc/resources.py (as repaired on branch c20) by hand; "
           "tie = per-run differential execution",
           "float parsing/multiplication in _convert_to_gb is not modelled (exact decimals in the model)",
           "harness-side canonicalisation of memory strings to exact sizes (fractions.Fraction)"]

FIELDS = ["cpus", "cpus_per_node", "nodes", "memory", "gpus", "time", "partition"]
ALL_KEYS = FIELDS + ["extra_args", "parallelization_mode"]
UNITS = ["B", "KB", "MB", "GB", "TB", "PB"]
XKEYS = ["qos", "account", "constraint", "x", "exclusive", "mail-type", "a b", "mem"]
XVALS = [0, 1, -3, 42, "normal", "a b", "", "x=y", "10"]
PARTS = [None, None, None, "gpu", "long", "", "a b", "p-1"]


# ------------------------------------------------------------------ Coq literals
def _oz(x):
    return copt(x, cz)


def _os(x):
    return copt(x, cstr)


def _xval(v):
    return f"(XInt {cz(v)})" if isinstance(v, int) else f"(XStr {cstr(v)})"


def _xdict(d):
    return clist([cpair(cstr(k), _xval(v)) for k, v in d])


def _res(a):
    return (f"(mkR {_oz(a['cpus'])} {_oz(a['cpus_per_node'])} {_oz(a['nodes'])} {_os(a['memory'])} {_oz(a['gpus'])} "
            f"{_os(a['time'])} {_os(a['partition'])} {_xdict(a['extra_args'])} {cstr(a['mode'])})")


def _uval(v):
    if v is None:
        return "UNone"
    if isinstance(v, int):
        return f"(UInt {cz(v)})"
    if isinstance(v, str):
        return f"(UStr {cstr(v)})"
    return f"(UDict {_xdict(v)})"


def _udict(d):
    return clist([cpair(cstr(k), _uval(v)) for k, v in d])


def emit_case(c) -> str:
    k = c["kind"]
    if k == "new":
        return f"(CNew {_res(c['a'])})"
    if k == "combine":
        return f"(CCombine {clist([_res(a) for a in c['rs']])})"
    if k == "update":
        return f"(CUpdate {_res(c['r'])} {_udict(c['kw'])})"
    if k == "with_defaults":
        return f"(CWithDefaults {_res(c['r'])} {copt(c['d'], _res)})"
    if k == "maybe":
        return f"(CMaybe {copt(c['r'], _res)} {copt(c['d'], _res)})"
    if k == "dict":
        return f"(CDict {_res(c['r'])})"
    if k == "from_dict":
        return f"(CFromDict {_udict(c['d'])})"
    if k == "slurm":
        return f"(CSlurm {_res(c['r'])})"
    if k == "maybe_max":
        e = c["e"]
        el = "ENone" if e is None else f"(ERes {_res(e['res'])})" if "res" in e else f"(EDict {_udict(e['dict'])})"
        return f"(CMaybeMax {el} {clist([copt(a, _res) for a in c['ch']])})"
    if k == "seq":
        return f"(CSeq {clist([_res(a) for a in c['base']])} {clist([_rop(o) for o in c['ops']])})"
    raise ValueError(k)


def _rop(o):
    t = o[0]
    if t == "create":
        return f"(OCreate {_res(o[1])})"
    if t == "update":
        return f"(OUpdate {cnat(o[1])} {_udict(o[2])})"
    if t == "combine":
        return f"(OCombine {clist([cnat(j) for j in o[1]])})"
    if t == "with_defaults":
        return f"(OWithDefaults {cnat(o[1])} {copt(o[2], cnat)})"
    if t == "from_dict":
        return f"(OFromDict {cnat(o[1])})"
    if t == "dict":
        return f"(ODict {cnat(o[1])})"
    if t == "slurm":
        return f"(OSlurm {cnat(o[1])})"
    if t == "eq":
        return f"(OEq {cnat(o[1])} {cnat(o[2])})"
    raise ValueError(t)


# ------------------------------------------------------------------ implementation driver
_MEM = re.compile(r"([0-9]+)(?:\.([0-9]+))?([KMGTP]?)B\Z")


def mem_size(m):
    """Exact size in bytes of a memory string as [numerator, denominator] (reduced), or 'invalid'."""
    mm = _MEM.match(m.upper()) if all(ord(ch) < 128 for ch in m) else None
    if not mm:
        return "invalid"
    d1, d2, u = mm.group(1), mm.group(2) or "", mm.group(3)
    f = Fraction(int(d1 + d2), 10 ** len(d2)) * 10 ** (3 * " KMGTP".index(u or " "))
    return [f.numerator, f.denominator]


def obj_obs(r, raw=True):
    m = r.memory
    return [r.cpus, r.cpus_per_node, r.nodes, (m if raw else None), (None if m is None else mem_size(m)),
            r.gpus, r.time, r.partition, [[k, v] for k, v in r.extra_args.items()], r.parallelization_mode]


def _kwargs(a):
    return {"cpus": a["cpus"], "cpus_per_node": a["cpus_per_node"], "nodes": a["nodes"], "memory": a["memory"],
            "gpus": a["gpus"], "time": a["time"], "partition": a["partition"],
            "extra_args": dict((k, v) for k, v in a["extra_args"]), "parallelization_mode": a["mode"]}


def _res_of(f, raw=True):
    try:
        return Ok(obj_obs(f(), raw))
    except Exception as e:  # noqa: BLE001
        return Err(e)


def _uobs(v):
    return [[k, x] for k, x in v.items()] if isinstance(v, dict) else v


def snap_obj(R, o):
    """Everything observed of one live object: fields, instance attribute names, and how it behaves."""
    keys = sorted(vars(o))
    flds = obj_obs(o)
    try:
        u = Ok(obj_obs(o.update()))
    except Exception as e:  # noqa: BLE001
        u = Err(e)
    try:
        sl = o.to_slurm_options()
    except Exception as e:  # noqa: BLE001
        sl = Err(e)
    try:
        eq = bool(R.from_dict(o.dict()) == o)
    except Exception:  # noqa: BLE001
        eq = False
    return [flds, keys, u, sl, eq]


def run_seq(c):
    from pipefunc.resources import Resources as R

    try:
        heap = [R(**_kwargs(a)) for a in c["base"]]
    except Exception as e:  # noqa: BLE001
        return ["bad-case", Err(e)]
    out = [[snap_obj(R, o) for o in heap]]
    for op in c["ops"]:
        t = op[0]
        ids = ([] if t == "create" else op[1] if t == "combine" else [op[1], op[2]] if t == "eq"
               else [op[1]] + ([op[2]] if t == "with_defaults" and op[2] is not None else []))
        if any(j >= len(heap) for j in ids):
            out.append(["bad-case", [snap_obj(R, o) for o in heap]])
            continue
        try:
            if t == "create":
                x = R(**_kwargs(op[1]))
            elif t == "update":
                x = heap[op[1]].update(**{a: (dict(map(tuple, b)) if isinstance(b, list) else b) for a, b in op[2]})
            elif t == "combine":
                x = R.combine_max([heap[j] for j in op[1]])
            elif t == "with_defaults":
                x = heap[op[1]].with_defaults(None if op[2] is None else heap[op[2]])
            elif t == "from_dict":
                x = R.from_dict(heap[op[1]].dict())
            elif t == "dict":
                x = ["val", [[a, _uobs(b)] for a, b in heap[op[1]].dict().items()]]
            elif t == "slurm":
                x = ["val", heap[op[1]].to_slurm_options()]
            elif t == "eq":
                x = ["val", bool(heap[op[1]] == heap[op[2]])]
            else:
                raise ValueError(t)
            if isinstance(x, R):
                k = next((j for j, y in enumerate(heap) if y is x), None)
                if k is None:
                    heap.append(x)
                    k = len(heap) - 1
                st = ["ok", k]
            else:
                st = x
        except Exception as e:  # noqa: BLE001
            st = Err(e)
        out.append([st, [snap_obj(R, o) for o in heap]])
    return out


def run_impl(c):
    from pipefunc.resources import Resources as R

    k = c["kind"]
    if k == "seq":
        return run_seq(c)
    if k == "new":
        return _res_of(lambda: R(**_kwargs(c["a"])))
    if k == "from_dict":
        return _res_of(lambda: R.from_dict({a: (dict(map(tuple, b)) if isinstance(b, list) else b) for a, b in c["d"]}))

    def build(a):
        return None if a is None else R(**_kwargs(a))

    if k == "maybe_max":
        import types

        from pipefunc._pipefunc import _maybe_max_resources

        try:
            e = c["e"]
            ex = None if e is None else build(e["res"]) if "res" in e else \
                {a: (dict(map(tuple, b)) if isinstance(b, list) else b) for a, b in e["dict"]}
            kids = [build(a) for a in c["ch"]]
        except Exception as err:  # noqa: BLE001
            return ["bad-case", Err(err)]
        fs = [types.SimpleNamespace(resources=x) for x in kids]
        try:
            x = _maybe_max_resources(ex, fs)
            res = None if x is None else Ok(obj_obs(x, raw=False))
            which = ("none" if x is None else "explicit" if x is ex else
                     "child" if any(x is y for y in kids) else "new")
        except Exception as err:  # noqa: BLE001
            res, which = Err(err), "new"
        return [res, [None if y is None else obj_obs(y) for y in kids], which]
    try:
        if k == "combine":
            ops = [build(a) for a in c["rs"]]
        elif k in ("with_defaults", "maybe"):
            r, d = build(c["r"]), build(c["d"])
        else:
            r = build(c["r"])
    except Exception as e:  # noqa: BLE001
        return ["bad-case", Err(e)]
    opt = lambda x: None if x is None else obj_obs(x)  # noqa: E731
    if k == "combine":
        res = _res_of(lambda: R.combine_max(ops), raw=False)
        return [res, [obj_obs(x) for x in ops]]
    if k == "update":
        kw = {a: (dict(map(tuple, b)) if isinstance(b, list) else b) for a, b in c["kw"]}
        try:
            x = r.update(**kw)
            res, shares = Ok(obj_obs(x)), x.extra_args is r.extra_args
        except Exception as e:  # noqa: BLE001
            res, shares = Err(e), False
        return [res, obj_obs(r), shares]
    if k == "with_defaults":
        try:
            x = r.with_defaults(d)
            res, same = Ok(obj_obs(x)), x is r
        except Exception as e:  # noqa: BLE001
            res, same = Err(e), False
        return [res, obj_obs(r), opt(d), same]
    if k == "maybe":
        try:
            x = R.maybe_with_defaults(r, d)
            res = None if x is None else Ok(obj_obs(x))
            which = "none" if x is None else "first" if x is r else "second" if x is d else "new"
        except Exception as e:  # noqa: BLE001
            res, which = Err(e), "new"
        return [res, opt(r), opt(d), which]
    if k == "dict":
        dd = r.dict()
        try:
            x = R.from_dict(dd)
            rt, eq = Ok(obj_obs(x)), bool(x == r)
        except Exception as e:  # noqa: BLE001
            rt, eq = Err(e), False
        return [[[a, _uobs(b)] for a, b in dd.items()], rt, eq, obj_obs(r)]
    if k == "slurm":
        return [r.to_slurm_options(), obj_obs(r)]
    raise ValueError(k)


# ------------------------------------------------------------------ generators
def _case(s, rng):
    return "".join(ch.lower() if rng.random() < 0.3 else ch for ch in s)


def gen_number(rng):
    """A decimal numeral with <= 6 significant digits (plus optional zero padding)."""
    nd = rng.choice([1, 1, 2, 2, 3, 4, 6])
    sig = str(rng.randint(0, 10 ** nd - 1))
    if rng.random() < 0.45:
        cut = rng.randint(0, len(sig))
        a, b = sig[:cut] or "0", sig[cut:] or "0"
        if rng.random() < 0.3:
            b += "0" * rng.randint(1, 2)
        if rng.random() < 0.15:
            a = "0" * rng.randint(1, 2) + a
        return a + "." + b
    return ("0" * rng.randint(1, 2) if rng.random() < 0.1 else "") + sig


def gen_mem(rng):
    return gen_number(rng) + _case(rng.choice(UNITS), rng)


def equal_mems(rng):
    """The same size written in several ways."""
    n = rng.randint(1, 999)
    u = rng.randint(1, 4)
    out = [f"{n}{UNITS[u]}", f"{n}000{UNITS[u - 1]}", f"{n}.0{UNITS[u]}", f"{n}.000{UNITS[u]}", f"0{n}{UNITS[u]}"]
    t = f"{n:04d}"
    out.append(f"{int(t[:-3])}.{t[-3:]}{UNITS[u + 1]}")
    return [_case(x, rng) for x in out]


def gen_time(rng):
    f = rng.randrange(4)
    mm, ss = f"{rng.randint(0, 99):02d}", f"{rng.randint(0, 99):02d}"
    if rng.random() < 0.5:
        mm, ss = f"{rng.randint(0, 59):02d}", f"{rng.choice([0, 0, 30, 59]):02d}"
    if f == 0:
        return f"{mm}:{ss}"
    if f == 1:
        h = rng.choice(["0", "1", "2", "9", "10", "12", "24", "48", "100", "00", "07", "009"])
        return f"{h}:{mm}:{ss}"
    if f == 2:
        return f"{rng.randint(0, 99):02d}:{mm}:{ss}"
    return f"{rng.choice(['0', '1', '2', '10', '01', '365'])}:{rng.randint(0, 30):02d}:{mm}:{ss}"


TIME_TRAPS = [["2:00:00", "10:00:00"], ["9:59:59", "10:00:00"], ["99:99", "1:00:00"], ["60:00", "1:00:00", "0:01:00:00"],
              ["24:00:00", "1:00:00:00", "23:59:60"], ["100:00:00", "99:00:00"], ["59:59", "0:59:59", "00:59:59"],
              ["1:00:00:00", "2:00:00"], ["00:00", "0:00:00"], ["5:00:00", "05:00:00", "4:60:00"]]

MUT = list("0123456789") + [".", ":", " ", "\n", "B", "G", "K", "E", "i", "-", "+", "_", "e", ",", "\t"]


def mutate(rng, t):
    op = rng.randrange(5)
    if not t:
        return rng.choice(MUT)
    p = rng.randrange(len(t))
    if op == 0:
        return t[:p] + t[p + 1:]
    if op == 1:
        p = rng.randrange(len(t) + 1)
        return t[:p] + rng.choice(MUT) + t[p:]
    if op == 2:
        return t[:p] + rng.choice(MUT) + t[p + 1:]
    if op == 3:
        return t[:p] + t[p] * 2 + t[p + 1:]
    return rng.choice([t + "\n", " " + t, t + " ", t[:p], t.replace(":", ".", 1), t.replace(".", ":", 1), t + t])


# near misses of the two grammars (some of them are valid: the model decides, not this list)
EDGE_MEM = ["1.GB", ".5GB", "1..5GB", "1.5.GB", "1.5.5GB", "GB", "B", "1G", "1", "", "1.5", "1 GB", "1.5 GB", "1GB ",
            " 1GB", "1e3GB", "1E3B", "-1GB", "+1GB", "1_0GB", "1GiB", "1KiB", "1BB", "1kB", "1Kb", "1kb", "1EB", "1ZB",
            "1XB", "1GBB", "1GGB", "1.0.B", "0B", "0.0B", "00.00gB", "1,5GB", "1GB\n", "1gb\n", "\n1GB", "1\nGB",
            "1.5B", "0.001KB", "1.GB\n", "1.", "1.B", "12.B", "1.KB", "5.", ".B", "1.5", "0x1GB", "1GB1", "GB1"]
EDGE_TIME = ["1:2:3", "1:00", "100:00", "1:00:00:00:00", ":00:00", "00:00:", "0:0:00", "24", "00", "", ":", "::",
             "1-00:00:00", "00:00:00:00", "123:00:00:00", "1:1:00:00", "12:345:00", "1:00:60", " 1:00:00", "1:00:00 ",
             "1:00:00\n", "10:00\n", "\n10:00", "1:00:0", "1:0:00", "001:00:00", "00:000", "000:00", "0:00", "00:0",
             "1:00:00:0", "1:00:000:00", "12:34", "99:99:99", "99:99:99:99", "1.00:00", "1:00.00", "a:00", "00:aa",
             "1:00:00:00", "-1:00:00", "+1:00:00", "1_0:00:00", "1 :00:00", "00:00:00", "0:00:00:00"]


def gen_extra(rng, n=None):
    n = rng.choice([0, 0, 1, 2, 3]) if n is None else n
    return [[k, rng.choice(XVALS)] for k in rng.sample(XKEYS, n)]


def gen_valid(rng, rich=False):
    a = dict.fromkeys(FIELDS)
    layout = rng.randrange(4)
    count = lambda: rng.choice([1, 1, 2, 3, 4, 8, 128])  # noqa: E731
    if layout == 0:
        a["cpus"] = count()
    elif layout == 1:
        a["nodes"] = count()
        if rng.random() < 0.6:
            a["cpus_per_node"] = count()
    elif layout == 2 and rng.random() < 0.5:
        a["cpus"] = count()
    if rng.random() < 0.5:
        a["gpus"] = rng.choice([0, 0, 1, 2, 4])
    if rng.random() < (0.85 if rich else 0.5):
        a["memory"] = gen_mem(rng)
    if rng.random() < (0.85 if rich else 0.5):
        a["time"] = gen_time(rng)
    a["partition"] = rng.choice(PARTS)
    a["extra_args"] = gen_extra(rng)
    a["mode"] = rng.choice(["external", "external", "internal", "weird"])
    return a


def gen_fault(rng, a):
    """One injected fault (the exclusive combinations, non-positive counts, malformed strings)."""
    a = json.loads(json.dumps(a))
    op = rng.randrange(8)
    if op == 0:
        a["cpus"], a["nodes"] = rng.randint(1, 4), rng.randint(1, 4)
    elif op == 1:
        a["cpus_per_node"], a["nodes"] = rng.randint(1, 4), None
    elif op == 2:
        a[rng.choice(["cpus", "nodes", "cpus_per_node"])] = rng.choice([0, -1, -7])
    elif op == 3:
        a["gpus"] = rng.choice([-1, -2, 0])
    elif op in (4, 5):
        a["memory"] = rng.choice(EDGE_MEM) if rng.random() < 0.4 else mutate(rng, a["memory"] or gen_mem(rng))
    else:
        a["time"] = rng.choice(EDGE_TIME) if rng.random() < 0.4 else mutate(rng, a["time"] or gen_time(rng))
    return a


def gen_operands(rng, n):
    ops = [gen_valid(rng, rich=True) for _ in range(n)]
    r = rng.random()
    if r < 0.3 and n >= 2:      # equal sizes written differently
        ms = equal_mems(rng)
        for o in ops:
            if rng.random() < 0.8:
                o["memory"] = rng.choice(ms)
    if 0.2 < r < 0.55 and n >= 2:  # time traps
        tr = list(rng.choice(TIME_TRAPS))
        rng.shuffle(tr)
        for o, t in zip(ops, tr):
            o["time"] = t
    if r > 0.9:
        for o in ops:
            o["memory"] = rng.choice(["0GB", "0B", "0.0KB", None, "0.00PB"])
    return ops


def gen_kw(rng):
    keys = rng.sample(FIELDS + ["parallelization_mode", "extra_args"], rng.choice([0, 1, 1, 2, 3]))
    other = rng.sample(XKEYS + ["zz", "foo"], rng.choice([0, 1, 1, 2]))
    kw = []
    v = gen_valid(rng) if rng.random() < 0.8 else gen_fault(rng, gen_valid(rng))
    for k in keys:
        if k == "extra_args":
            kw.append([k, gen_extra(rng, rng.choice([0, 1, 2]))])
        elif k == "parallelization_mode":
            kw.append([k, v["mode"]])
        else:
            kw.append([k, v[k]])
    for k in other:
        kw.append([k, rng.choice(XVALS)])
    rng.shuffle(kw)
    return kw


def to_udict(rng, a):
    d = [[k, a[k]] for k in FIELDS if a[k] is not None or rng.random() < 0.15]
    if a["extra_args"] or rng.random() < 0.5:
        d.append(["extra_args", a["extra_args"]])
    if a["mode"] != "external" or rng.random() < 0.5:
        d.append(["parallelization_mode", a["mode"]])
    rng.shuffle(d)
    return d


CORNER = [
    {"kind": "combine", "rs": [{"cpus": None, "cpus_per_node": None, "nodes": None, "memory": None, "gpus": None,
                                "time": t, "partition": None, "extra_args": [], "mode": "external"}
                               for t in ("2:00:00", "10:00:00")]},
    {"kind": "update", "r": {"cpus": 1, "cpus_per_node": None, "nodes": None, "memory": None, "gpus": None, "time": None,
                             "partition": None, "extra_args": [], "mode": "external"}, "kw": [["foo", 1]]},
    {"kind": "slurm", "r": {"cpus": None, "cpus_per_node": None, "nodes": None, "memory": None, "gpus": 0, "time": None,
                            "partition": None, "extra_args": [], "mode": "external"}},
    {"kind": "combine", "rs": [{"cpus": None, "cpus_per_node": None, "nodes": None, "memory": "0GB", "gpus": None,
                                "time": None, "partition": None, "extra_args": [], "mode": "external"}]},
    {"kind": "new", "a": {"cpus": None, "cpus_per_node": None, "nodes": None, "memory": "2GB\n", "gpus": None,
                          "time": None, "partition": None, "extra_args": [], "mode": "external"}},
    {"kind": "new", "a": {"cpus": None, "cpus_per_node": None, "nodes": None, "memory": None, "gpus": None,
                          "time": "10:00\n", "partition": None, "extra_args": [], "mode": "external"}},
    {"kind": "combine", "rs": []},
]
_BLANK = {"cpus": None, "cpus_per_node": None, "nodes": None, "memory": None, "gpus": None, "time": None,
          "partition": None, "extra_args": [], "mode": "external"}
CORNER += [
    # operands of combine_max are used again afterwards (update, with_defaults, ==, dict round trip)
    {"kind": "seq",
     "base": [{**_BLANK, "cpus": 2, "memory": "512MB", "time": "30:00", "extra_args": [["qos", "short"]]},
              {**_BLANK, "cpus": 8, "gpus": 1, "memory": "0.5TB", "time": "1:00:00:00"},
              {**_BLANK, "cpus": 1, "time": "10:00"}],
     "ops": [["update", 0, [["cpus", 3], ["account", "proj"]]], ["combine", [0, 1, 2]],
             ["update", 0, [["cpus", 3], ["account", "proj"]]], ["update", 1, [["cpus", 9]]],
             ["update", 2, [["cpus", 2]]], ["with_defaults", 0, 1], ["from_dict", 1], ["eq", 1, 8]]},
    {"kind": "seq", "base": [{**_BLANK, "cpus": 1}],
     "ops": [["update", 0, [["foo", 1]]], ["with_defaults", 0, None], ["update", 1, [["bar", 2]]], ["dict", 0],
             ["slurm", 2], ["combine", [0, 0, 1]], ["eq", 0, 0]]},
]
CORNER += [{"kind": "new", "a": {**_BLANK, "memory": m}} for m in EDGE_MEM]
CORNER += [{"kind": "new", "a": {**_BLANK, "time": t}} for t in EDGE_TIME]


def gen_seq(rng):
    """2-3 shared objects, 3-6 operations on them and on the results; operands are reused after combine_max."""
    base = gen_operands(rng, rng.choice([2, 2, 3]))
    sure = len(base)      # objects that certainly exist
    maybe = len(base)     # objects that exist if every earlier operation succeeded
    ops = []
    for _ in range(rng.randint(3, 6)):
        pick = lambda: rng.randrange(maybe if rng.random() < 0.6 else sure)  # noqa: E731
        t = rng.choice(["update", "update", "combine", "combine", "with_defaults", "from_dict", "dict", "slurm", "eq",
                        "create"])
        if t == "create":
            ops.append([t, gen_valid(rng, rich=True) if rng.random() < 0.8 else gen_fault(rng, gen_valid(rng))])
            maybe += 1
        elif t == "update":
            ops.append([t, pick(), gen_kw(rng)])
            maybe += 1
        elif t == "combine":
            ops.append([t, [pick() for _ in range(rng.choice([1, 2, 2, 3]))]])
            maybe += 1
            sure = sure + 1 if maybe == sure + 1 else sure
        elif t == "with_defaults":
            j = None if rng.random() < 0.25 else pick()
            ops.append([t, pick(), j])
            maybe += 0 if j is None else 1
        elif t == "from_dict":
            ops.append([t, pick()])
            maybe += 1
            sure = sure + 1 if maybe == sure + 1 else sure
        elif t == "eq":
            ops.append([t, pick(), pick()])
        else:
            ops.append([t, pick()])
    return _untie({"kind": "seq", "base": base, "ops": ops})


def _untie(c):
    """Within one sequence, equal sizes are written the same way: the result of combine_max stays in the heap with its
    memory STRING observed, and between equal sizes written differently the floats of the implementation may prefer
    either one (the model is exact and keeps the first)."""
    canon = {}

    def fix(m):
        if not isinstance(m, str):
            return m
        sz = mem_size(m)
        return m if sz == "invalid" else canon.setdefault(tuple(sz), m)

    for a in c["base"]:
        a["memory"] = fix(a["memory"])
    for o in c["ops"]:
        if o[0] == "create":
            o[1]["memory"] = fix(o[1]["memory"])
        elif o[0] == "update":
            for kv in o[2]:
                if kv[0] == "memory":
                    kv[1] = fix(kv[1])
    return c


def generate(rng, tier, mult):
    n = (120 if tier == "quick" else 3000) * mult
    cases = list(CORNER)
    for _ in range(n):
        a = gen_valid(rng, rich=True)
        cases.append({"kind": "new", "a": a})
        cases.append({"kind": "new", "a": gen_fault(rng, a)})
        cases.append({"kind": "new", "a": gen_fault(rng, gen_valid(rng))})
        k = rng.choice([0, 1, 2, 2, 3, 3, 4])
        cases.append({"kind": "combine", "rs": gen_operands(rng, k)})
        cases.append({"kind": "combine", "rs": gen_operands(rng, rng.choice([2, 3]))})
        r = gen_valid(rng)
        cases.append({"kind": "update", "r": r, "kw": gen_kw(rng)})
        r = gen_valid(rng)
        cases.append({"kind": "update", "r": r, "kw": gen_kw(rng)})
        d = gen_valid(rng) if rng.random() < 0.85 else None
        cases.append({"kind": "with_defaults", "r": gen_valid(rng), "d": d})
        cases.append({"kind": "maybe", "r": gen_valid(rng) if rng.random() < 0.75 else None,
                      "d": gen_valid(rng) if rng.random() < 0.75 else None})
        cases.append({"kind": "dict", "r": gen_valid(rng, rich=True)})
        v = gen_valid(rng, rich=True)
        q = rng.random()
        if q < 0.25:
            v = gen_fault(rng, v)
        d = to_udict(rng, v)
        if 0.25 < q < 0.4:
            d.insert(rng.randrange(len(d) + 1), [rng.choice(["wrong_arg", "cpu", "mem", "Cpus", "extra"]), 1])
        cases.append({"kind": "from_dict", "d": d})
        cases.append({"kind": "slurm", "r": gen_valid(rng, rich=True)})
        q = rng.random()
        e = None if q < 0.75 else {"res": gen_valid(rng)} if q < 0.9 else {"dict": to_udict(rng, gen_valid(rng))}
        kids = [o if rng.random() < 0.7 else None for o in gen_operands(rng, rng.choice([0, 1, 2, 2, 3, 4]))]
        cases.append({"kind": "maybe_max", "e": e, "ch": kids})
        cases.append(gen_seq(rng))
    return cases


def nontrivial_key(c):
    k = c["kind"]
    if k == "combine" and len(c["rs"]) < 2:
        return None
    if k == "new" and all(c["a"][f] is None for f in FIELDS) and not c["a"]["extra_args"]:
        return None
    return (k, json.dumps(c, sort_keys=True))


def distribution(c):
    d = {"kind": c["kind"]}
    if c["kind"] == "combine":
        d["operands"] = len(c["rs"])
    if c["kind"] == "seq":
        d["seq_ops"] = len(c["ops"])
        for o in c["ops"]:
            d["seq_op_" + o[0]] = 1
    if c["kind"] == "maybe_max":
        d["children_with_resources"] = sum(1 for a in c["ch"] if a is not None)
    if c["kind"] == "update":
        d["update_free_keys"] = sum(1 for k, _ in c["kw"] if k not in ALL_KEYS)
    return d


def finding_id(c, impl_obs, kind):
    # Resources(gpus=0).to_slurm_options() does not mention gpus; everything else must be mentioned
    if c["kind"] == "slurm" and c["r"]["gpus"] == 0 and isinstance(impl_obs, list) and len(impl_obs) == 2 \
            and isinstance(impl_obs[0], str):
        words = impl_obs[0].split(" ")
        r = c["r"]
        need = [f"--cpus-per-task={r['cpus']}" if r["cpus"] is not None else None,
                f"--nodes={r['nodes']}" if r["nodes"] is not None else None,
                f"--cpus-per-node={r['cpus_per_node']}" if r["cpus_per_node"] is not None else None,
                f"--mem={r['memory']}" if r["memory"] is not None else None,
                f"--time={r['time']}" if r["time"] is not None else None]
        if "--gres=gpu:0" not in words and all(w is None or w in words for w in need):
            return "slurm-gpus-zero-omitted"
    return None


def _ids(o):
    t = o[0]
    return ([] if t == "create" else list(o[1]) if t == "combine" else [o[1], o[2]] if t == "eq"
            else [o[1]] + ([o[2]] if t == "with_defaults" and o[2] is not None else []))


def _renum(o, j):
    f = lambda i: i - 1 if i is not None and i > j else i  # noqa: E731
    t = o[0]
    if t == "create":
        return o
    if t == "combine":
        return [t, [f(i) for i in o[1]]]
    if t in ("eq", "with_defaults"):
        return [t, f(o[1]), f(o[2])]
    return [t, f(o[1])] + list(o[2:])


def shrink(c):
    out = []
    k = c["kind"]
    if k == "combine":
        for j in range(len(c["rs"])):
            out.append({"kind": k, "rs": c["rs"][:j] + c["rs"][j + 1:]})
    targets = {"new": ["a"], "combine": [], "update": ["r"], "with_defaults": ["r", "d"], "maybe": ["r", "d"],
               "dict": ["r"], "slurm": ["r"], "from_dict": [], "maybe_max": [], "seq": []}[k]
    for t in targets:
        a = c[t]
        if a is None:
            continue
        for f in FIELDS:
            if a[f] is not None:
                out.append({**c, t: {**a, f: None}})
        if a["extra_args"]:
            out.append({**c, t: {**a, "extra_args": a["extra_args"][1:]}})
    if k == "combine":
        for j, a in enumerate(c["rs"]):
            for f in FIELDS:
                if a[f] is not None:
                    out.append({"kind": k, "rs": c["rs"][:j] + [{**a, f: None}] + c["rs"][j + 1:]})
    if k == "seq":
        # fewer operations first (later ids then name other objects or nothing: still a sequence, judged afresh)
        for j in reversed(range(len(c["ops"]))):
            out.append({**c, "ops": c["ops"][:j] + c["ops"][j + 1:]})
        for j, o in enumerate(c["ops"]):
            if o[0] == "update" and o[2]:
                out.append({**c, "ops": c["ops"][:j] + [[o[0], o[1], []]] + c["ops"][j + 1:]})
            if o[0] == "combine" and len(o[1]) > 1:
                for q in range(len(o[1])):
                    out.append({**c, "ops": c["ops"][:j] + [[o[0], o[1][:q] + o[1][q + 1:]]] + c["ops"][j + 1:]})
        for j in range(len(c["base"])):  # drop a base object nobody names; later ids move down by one
            if len(c["base"]) > 1 and all(j not in _ids(o) for o in c["ops"]):
                out.append({**c, "base": c["base"][:j] + c["base"][j + 1:], "ops": [_renum(o, j) for o in c["ops"]]})
        for j, a in enumerate(c["base"]):
            for f in FIELDS:
                if a[f] is not None:
                    out.append({**c, "base": c["base"][:j] + [{**a, f: None}] + c["base"][j + 1:]})
            if a["extra_args"]:
                out.append({**c, "base": c["base"][:j] + [{**a, "extra_args": []}] + c["base"][j + 1:]})
    if k == "maybe_max":
        for j in range(len(c["ch"])):
            out.append({**c, "ch": c["ch"][:j] + c["ch"][j + 1:]})
    if k == "update":
        for j in range(len(c["kw"])):
            out.append({**c, "kw": c["kw"][:j] + c["kw"][j + 1:]})
    if k == "from_dict":
        for j in range(len(c["d"])):
            out.append({**c, "d": c["d"][:j] + c["d"][j + 1:]})
    return out
