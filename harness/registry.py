"""Claimed properties: text used to generate MANIFEST.json (python -m harness.mkmanifest)."""

CLAIMED = {
    "C08": {
        "design_ref": "DESIGN.md section 5 / C08",
        "technique": "Coq proof over a hand-written Gallina model of _mapspec.py + per-run differential correspondence (vm_compute)",
        "text": "Coq theorems about the Gallina model of pipefunc/map/_mapspec.py (row-major bijection of output_key, input_keys "
                "selection, constructor accepts exactly the well-formed specs, print/parse round trip, shape, rename/add_axes), "
                "for all specs, shapes and indices; the model is tied to /repo on every run by evaluating model and "
                "implementation on the same generated and mutated inputs inside Coq, where the formal statement itself "
                "(spec_ok) judges the implementation's observations.",
        "note": "Trusted: Coq kernel + vm_compute; hand-written model (tie checked by sampling, bounded by the generator); "
                "Python harness; ASCII identifiers only.",
    },
    "C01": {
        "design_ref": "DESIGN.md section 5 / C01",
        "technique": "Coq proof (placement/selection lemmas, induction over the function list) over a Gallina model of the sequential map path + per-run differential correspondence (vm_compute)",
        "text": "Theorem C01_map_run_denotes: for an arbitrary user-function oracle, every request whose pointwise MapSpec denotation is "
                "defined is answered by the model of Pipeline.map's sequential path (index loops, input_keys selection, flat-index placement "
                "_set_output, storage dump at output_key) with exactly the denoted arrays, both returned and stored, for all ranks, masks "
                "(internal axes at any position), zips, outer products and ':' reductions; never refused. The model is tied to /repo per run: "
                "random valid requests are run through the real Pipeline.map on all three storages and compared in Coq with the model and "
                "judged against the denotation (spec_ok).",
        "note": "Trusted: Coq kernel + vm_compute; hand-written model of _run.py/_shapes.py/_run_info.py (sequential path; storage abstracted to the "
                "masked array that C07 proves the backends refine); explicit MapSpecs only (auto-generation exercised, not modelled); "
                "oracle hypothesis body_arity; harness/mapsym.py structural functions.",
    },
    "C07": {
        "design_ref": "DESIGN.md section 5 / C07",
        "technique": "Coq refinement proof (FileArray and DictArray models refine a masked n-d array, by induction over operation sequences) + per-run differential correspondence",
        "text": "For every geometry, mask interleaving and operation sequence (dump, getitem with int/negative/slice keys, to_array, mask, "
                "mask_linear, has_index, get_from_index, persist-reopen) the line-by-line models of FileArray and DictArray produce the outputs of "
                "the reference masked array (refines_seq), hence agree with each other; key errors exactly for wrong rank / out-of-range ints; "
                "row-major linear indices. Models tied to the real classes (file_array, dict, shared_memory_dict) on every run.",
        "note": "Trusted: Coq kernel; hand-written models of _base.py/_file.py/_dict.py; Python slice/range/unravel tables re-checked against CPython/NumPy "
                "on every run; pickle treated as identity; zarr backends cannot be imported here.",
    },
    "C14": {
        "design_ref": "DESIGN.md section 5 / C14",
        "technique": "Coq invariant + refinement proofs over state-machine models of the four cache classes (induction over all operation sequences) + exhaustive/random differential correspondence incl. two-client schedule exploration",
        "text": "For every operation sequence: LRU/Simple/Hybrid/Disk models never raise, keep their representation invariants (size <= max, "
                "queue = dict domain, ...) and refine abstract policy specs (recency list; scored entries; creation-ordered files with LRU front); "
                "evicted entry is the policy's victim (Hybrid under irreflexive+transitive '<'). Implementation driven along all sequences over a "
                "3-4 key alphabet to depth 4-5, random long sequences, shared=True, and all schedules of two small clients with proxy calls as atomic steps.",
        "note": "Trusted: Coq kernel; hand-written models of cache.py classes; Hybrid arithmetic generic in the theorems, PrimFloat only in the correspondence "
                "(float primitives); real multi-process timing sampled, lock linearizability explored not proved; disk ctime made strictly increasing by the harness.",
    },
    "C15": {
        "design_ref": "DESIGN.md section 5 / C15",
        "technique": "Coq proof over a value-universe model of Python ==, <, hash, sorted() and to_hashable (dispatch order mirrored) + pairwise differential correspondence in two interpreters",
        "text": "key_hashable, eq_implies_key_eq (via canonicity of sorting), key_eq_implies_eq (injectivity; only pandas excluded) and totality are proved "
                "under explicit guards; each guard is matched by a refuted-theorem witness and a recorded known finding on the real code (incomparable "
                "set/dict keys, frozenset partial order, masked arrays, pandas index/dtype loss, Counter zero counts, pickle hash-seed dependence). "
                "Pairs of values incl. look-alikes are run through the real to_hashable in two interpreters with different hash seeds.",
        "note": "Trusted: Coq kernel; hand-written models (PyVal, PySort for <64 elements, ToHashable); cloudpickle/md5 as injective digest; NaN/inf, "
                "lists >= 64 elements not modelled; theorems are guarded partial statements, the unguarded ones are refuted (known findings).",
    },
    "C17": {
        "design_ref": "DESIGN.md section 5 / C17",
        "technique": "Coq proof over a Gallina model of sweep.py (generate/len/product/filtered/MultiSweep/count loop) against a declarative Cartesian-product spec + differential correspondence",
        "text": "len = length of list(), generate = row-major product of zipped groups with constants (setdefault), derivers and exclusion, "
                "add/MultiSweep = concatenation, count_sweep loop counts; product = Cartesian product and filtered_sweep = distinct projections "
                "under stated guards, with refuted-theorem witnesses for the three recorded findings (product loses a zip, empty operand neutral, "
                "filtered ignores an empty dimension).",
        "note": "Trusted: Coq kernel; hand-written model of sweep.py; derivers/excludes are structural (table-driven) in the correspondence; "
                "set_cache_for_sweep, use_pandas, root-argument computation (C02) not modelled.",
    },
    "C20": {
        "design_ref": "DESIGN.md section 5 / C20",
        "technique": "Coq proof over a hand-written Gallina model of resources.py (exact rational sizes, explicit aliasing state) + per-run differential correspondence (vm_compute)",
        "text": "Coq theorems for all Resources values: combine_max is an upper bound in cpus/gpus/memory-by-size/time-by-duration and leaves "
                "operands untouched, with_defaults keeps set fields, no combinator mutates or aliases its operands, from_dict(dict r)=r, "
                "the constructor accepts exactly the valid combinations and strings (scanners proved equivalent to the regex grammars); "
                "to_slurm_options mentions every set quantity except the recorded finding gpus=0 (refuted + guarded partial theorem). "
                "Model tied to /repo per run by differential execution; spec_ok (Coq) judges the implementation's observations.",
        "note": "Trusted: Coq kernel + vm_compute; hand-written model; harness. Float rounding of _convert_to_gb not modelled (memory strings "
                "<= 6 significant digits); non-ASCII digits and callable resources out of scope.",
    },
}

NOT_YET = "not claimed yet: model/proofs for this property are not built in this revision (see DESIGN.md section 9 build order)"
