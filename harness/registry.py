"""Claimed properties: text used to generate MANIFEST.json (python -m harness.mkmanifest)."""

CLAIMED = {
    "C08": {
        "design_ref": "DESIGN.md section 5 / C08",
        "technique": "Coq proof over a hand-written Gallina model of _mapspec.py + per-run differential correspondence (vm_compute)",
        "text": "Coq theorems about the Gallina model of pipefunc/map/_mapspec.py (row-major bijection of output_key, input_keys "
                "selection, constructor accepts exactly the well-formed specs, print/parse round trip, shape, rename/add_axes), "
                "for all specs, shapes and indices; the model is tied to /repo on every run by evaluating model and "
                "implementation on the same generated and mutated inputs inside Coq, where the formal statement itself "
                "(spec_ok) judges the implementation's observations.",
        "note": "Trusted: Coq kernel + vm_compute; hand-written model (tie checked by sampling, bounded by the generator); "
                "Python harness; ASCII identifiers only.",
    },
}

NOT_YET = "not claimed yet: model/proofs for this property are not built in this revision (see DESIGN.md section 9 build order)"
