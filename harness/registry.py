"""Claimed properties: text used to generate MANIFEST.json (python -m harness.mkmanifest)."""

CLAIMED = {
    "C08": {
        "design_ref": "DESIGN.md section 5 / C08",
        "technique": "Coq proof over a hand-written Gallina model of _mapspec.py + per-run differential correspondence (vm_compute)",
        "text": "Coq theorems about the Gallina model of pipefunc/map/_mapspec.py (row-major bijection of output_key, input_keys "
                "selection, constructor accepts exactly the well-formed specs, print/parse round trip, shape, rename/add_axes), "
                "for all specs, shapes and indices; the model is tied to /repo on every run by evaluating model and "
                "implementation on the same generated and mutated inputs inside Coq, where the formal statement itself "
                "(spec_ok) judges the implementation's observations.",
        "note": "Trusted: Coq kernel + vm_compute; hand-written model (tie checked by sampling, bounded by the generator); "
                "Python harness; ASCII identifiers only.",
    },
    "C20": {
        "design_ref": "DESIGN.md section 5 / C20",
        "technique": "Coq proof over a hand-written Gallina model of resources.py (exact rational sizes, explicit aliasing state) + per-run differential correspondence (vm_compute)",
        "text": "Coq theorems for all Resources values: combine_max is an upper bound in cpus/gpus/memory-by-size/time-by-duration and leaves "
                "operands untouched, with_defaults keeps set fields, no combinator mutates or aliases its operands, from_dict(dict r)=r, "
                "the constructor accepts exactly the valid combinations and strings (scanners proved equivalent to the regex grammars); "
                "to_slurm_options mentions every set quantity except the recorded finding gpus=0 (refuted + guarded partial theorem). "
                "Model tied to /repo per run by differential execution; spec_ok (Coq) judges the implementation's observations.",
        "note": "Trusted: Coq kernel + vm_compute; hand-written model; harness. Float rounding of _convert_to_gb not modelled (memory strings "
                "<= 6 significant digits); non-ASCII digits and callable resources out of scope.",
    },
}

NOT_YET = "not claimed yet: model/proofs for this property are not built in this revision (see DESIGN.md section 9 build order)"
