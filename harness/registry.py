"""Claimed properties: text used to generate MANIFEST.json (python -m harness.mkmanifest)."""

CLAIMED = {
    "C08": {
        "design_ref": "DESIGN.md section 5 / C08",
        "technique": "Coq proof over a hand-written Gallina model of _mapspec.py + per-run differential correspondence (vm_compute) "
                     "+ AST translator for the index arithmetic (Gallina regenerated from the source, equality proofs re-checked per run)",
        "text": "Coq theorems about the Gallina model of pipefunc/map/_mapspec.py (row-major bijection of output_key, input_keys "
                "selection, constructor accepts exactly the well-formed specs, print/parse round trip, shape, rename/add_axes, "
                "validate_consistent_axes accepts exactly the consistent lists and mapspec_axes/mapspec_dimensions then agree with "
                "every occurrence), for all specs, shapes and indices, closed by the capstone C08_model_meets_spec (for every "
                "case, the model's observation satisfies spec_ok); the model is tied to /repo on every run by evaluating model and "
                "implementation on the same generated and mutated inputs inside Coq, where the formal statement itself "
                "(spec_ok) judges the implementation's observations. The index arithmetic (shape_to_strides, _shape_to_key, "
                "select_by_mask, external/internal_shape_from_mask, MapSpec.output_key/input_keys) is additionally re-translated "
                "from the Python AST into coq/gen/Gen_Index.v on every run and coq/gen/Check_Index.v proves, for all inputs, that "
                "the generated definitions equal the hand-written ones and inherit the index theorems.",
        "note": "Trusted: Coq kernel + vm_compute; hand-written model (tie checked by sampling, bounded by the generator) except the "
                "index arithmetic, whose tie is harness/translate_index.py + Base/PyPrim.v (the semantics given to the Python subset); "
                "Python harness; ASCII identifiers only.",
    },
    "C01": {
        "design_ref": "DESIGN.md section 5 / C01",
        "technique": "Coq proof (placement/selection lemmas, induction over the function list) over a Gallina model of the sequential map path + per-run differential correspondence (vm_compute)",
        "text": "Theorem C01_map_run_denotes: for an arbitrary user-function oracle, every request whose pointwise MapSpec denotation is "
                "defined is answered by the model of Pipeline.map's sequential path (index loops, input_keys selection, flat-index placement "
                "_set_output, storage dump at output_key) with exactly the denoted arrays, both returned and stored, for all ranks, masks "
                "(internal axes at any position), zips, outer products and ':' reductions; never refused. The model is tied to /repo per run: "
                "random valid requests are run through the real Pipeline.map on all three storages and compared in Coq with the model and "
                "judged against the denotation (spec_ok).",
        "note": "Trusted: Coq kernel + vm_compute; hand-written model of _run.py/_shapes.py/_run_info.py (sequential path; storage abstracted to the "
                "masked array that C07 proves the backends refine); explicit MapSpecs only (auto-generation exercised, not modelled); "
                "oracle hypothesis body_arity; harness/mapsym.py structural functions.",
    },
    "C02": {
        "design_ref": "DESIGN.md section 5 / C02",
        "technique": "Coq proof (fuelled run vs. structural eval, frontier invariant for arg_combinations) over a Gallina model of Pipeline.run/_run + differential correspondence with structural user functions",
        "text": "For an arbitrary user-code oracle: run = eval on well-formed pipelines (complete case analysis incl. body errors and surplus keywords), the "
                "call log contains exactly the needed functions once each with producers before consumers, invariance under listing permutation, "
                "full_output completeness, supplied intermediates replace producers, every arg_combinations entry is accepted. Real pipelines with "
                "structural bodies (any routing/count difference observable) are compared per run; two defects repaired.",
        "note": "Trusted: Coq kernel; hand-written model Model/Pipe.v; networkx mirrored by Base/Graph.v (soundness proved, agreement by correspondence); "
                "scopes, caches, hooks, resources not modelled.",
    },
    "C03": {
        "design_ref": "DESIGN.md section 5 / C03",
        "technique": "Coq proof for EVERY completion order (permutation) of a generation-wise parallel model on top of the sequential map model + correspondence with a controllable concurrent.futures.Executor and real thread/process pools",
        "text": "par_equiv_seq: for all schedules the returned and stored arrays equal the sequential run's (dumps go to distinct keys, results are paired "
                "by submission slot), calls_exactly_once (log is a permutation of the expected calls), barrier, single_dump (worker xor parent). The real "
                "_process_task is driven through every completion order of small generations via the public executor= argument, sync and async, all "
                "storages and executor assignments; real pools with injected delays sample the rest.",
        "note": "PARTIAL by nature: pre-emptive interleavings inside workers, the shared_memory_dict manager process, pickling and OS scheduling are sampled, not "
                "proved. Trusted: Coq kernel; Model/ParGen.v; harness scheduler.",
    },
    "C04": {
        "design_ref": "DESIGN.md section 5 / C04",
        "technique": "Coq round-trip and reload proofs over models of the RunInfo JSON codec and of the run folder as a finite map + same-process / fresh-interpreter reload correspondence",
        "text": "decode(encode ri) = ri for every well-formed RunInfo (and the RunInfo of any valid request is well-formed); load_outputs on the reopened "
                "folder returns the run's stored value (= the C01 denotation) for every persisting storage in any interpreter; loads are idempotent and "
                "leave the folder content unchanged. Real runs are reloaded in the same process and in fresh child interpreters.",
        "note": "PARTIAL: cloudpickle fidelity and JSON text layout are assumed; xarray reload compared structurally. Trusted: Coq kernel; hand-written codec/FS models.",
    },
    "C10": {
        "design_ref": "DESIGN.md section 5 / C10",
        "technique": "Coq proofs that rename/scope/join/split/nest preserve evaluation (for an arbitrary oracle) + a heap model of object aliasing (no in-place write, mutation isolation) + rewrite/aliasing-probe correspondence",
        "text": "rename/update_renames/scope preserve eval literally, dotted vs nested kwargs equivalent, join/split preserve reachable evaluation, nest sound and "
                "complete (up to fuel), copy/pickle identity, add_mapspec_axis keeps specs well-formed and consistent and reaches all dependants; heap model: no "
                "operation writes a pre-existing location, hence later mutations are isolated. simplify_preserves and value-level add_axis lifting are "
                "checked by correspondence only; one recorded finding (simplify with a shared dependency). Eight defects repaired.",
        "note": "PARTIAL: Python object identity is modelled by the heap model and validated by aliasing probes; pickling trusted; simplify and add_axis values "
                "not proved. Trusted: Coq kernel; hand-written models.",
    },
    "C11": {
        "design_ref": "DESIGN.md section 5 / C11",
        "technique": "Coq proof over a model of subpipeline/_find_nodes_between on Base/Graph + differential correspondence (subpipeline, map(output_names), auto_subpipeline)",
        "text": "subpipeline keeps the needed functions and their values, map on the subpipeline returns eval of the full pipeline and calls exactly the kept "
                "functions once, uncomputable requests are rejected; exactness of the kept set holds when all provided names are root arguments (partial) and is "
                "refuted otherwise (two witnesses); five recorded findings on the real code, two defects repaired.",
        "note": "Trusted: Coq kernel; hand-written model; completeness of Graph.reach only by correspondence with networkx.",
    },
    "C13": {
        "design_ref": "DESIGN.md section 5 / C13",
        "technique": "Coq proof over error-propagation models of pipeline calls and of sequential/executor map runs (exception terms, notes, generations, stores) + failing-invocation correspondence with timeouts",
        "text": "The first raising invocation surfaces with the exception term unchanged and a note naming that function and exactly its kwargs; nothing of a later "
                "generation runs; results of completed generations stay stored; reproduce gives the same exception; the failing function is entered once. "
                "Every (function, call index) of generated pipelines/map requests is made to raise four exception kinds under run, sequential, thread and "
                "process execution; completion is enforced by a hard timeout. Two recorded findings (elements of the failing generation not kept on the "
                "sequential path), two defects repaired.",
        "note": "PARTIAL: 'returns instead of hanging' is checked by timeout, not proved; cross-process pickling of exceptions restricted to class and args. "
                "Trusted: Coq kernel; hand-written models.",
    },
    "C18": {
        "design_ref": "DESIGN.md section 5 / C18",
        "technique": "Coq proof over a heap-of-thunks model of lazy pipelines (allocation order = recursion order) + differential correspondence incl. task graphs",
        "text": "nothing runs before evaluate, lazy value = eager value = spec (incl. raising bodies), every needed function is called exactly once across any number "
                "of evaluate() calls, the recorded DAG is acyclic and its edges are exactly the producer->consumer/picker dependencies.",
        "note": "Trusted: Coq kernel; hand-written model Model/Lazy.v; full_output=True dicts and lazy+cache covered by correspondence only.",
    },
    "C05": {
        "design_ref": "DESIGN.md section 5 / C05",
        "technique": "Coq proof over a file-system event model of a map run (crash = prefix of the event list, resume = run on the crashed folder) for the atomic write protocol + event-trace correspondence and crash injection at every event in child processes",
        "text": "crash_never_partial: with temp-file + os.replace writes no real file is ever partially written, for any pipeline, storage and crash point; "
                "no_redo_of_stored: a resumed run never recomputes an element whose file/entry is stored; a run started on any sub-store of the uninterrupted "
                "store ends with the uninterrupted outputs (store level, assuming completion); resume = uninterrupted result for every crash point and every pair "
                "of crash points of three reference pipelines on both storages (decided by computation, bound in the statement); the in-place protocol of the "
                "code as found is refuted (three failure classes). Six defects repaired (atomic dump, run_info.json written last, tolerant DictArray.load, ...). "
                "Real runs are traced event by event and killed at every event / raise point in child processes, then resumed.",
        "note": "PARTIAL: kernel crash semantics (page cache, rename durability) are not modelled: events are atomic and ordered; parallel executors not modelled; "
                "the general link 'crashed folder is a sub-store of the full store' is proved only for the reference pipelines and tested by injection.",
    },
    "C06": {
        "design_ref": "DESIGN.md section 5 / C06",
        "technique": "Coq proof over a model of runs on an existing store with fixed_indices selections and of the learners (selection = product of per-axis index sets; parts partition the index space; pieces leave the whole store) + partition/order correspondence",
        "text": "The NumPy-assignment mask of _mask_fixed_axes equals the declarative product of per-axis index sets (ints, negative ints, slices incl. negative "
                "steps); parts that partition an independent axis cover every position exactly once; a part computes exactly its selected missing elements; "
                "for one function any order of covering requests (and the learner sequences) leaves literally the full run's store with no call duplicated; a "
                "full run on any sub-store of the full store ends with the full outputs and a final run computes nothing; bad requests are rejected before any "
                "call. Real map(fixed_indices=...) parts in all orders and create_learners (with/without split_independent_axes) are compared per part. "
                "Three defects repaired.",
        "note": "Trusted: Coq kernel; hand-written Model/MapResume.v (linked to the C01 model by per-run evaluation, not by proof); pipeline-level pieces_eq_whole assumes "
                "completion and order_ok; reduced/out-of-range rejection stated against the model's own axes functions; CPython slice table re-checked per run.",
    },
    "C07": {
        "design_ref": "DESIGN.md section 5 / C07",
        "technique": "Coq refinement proof (FileArray and DictArray models refine a masked n-d array, by induction over operation sequences) + per-run differential correspondence",
        "text": "For every geometry, mask interleaving and operation sequence (dump, getitem with int/negative/slice keys, to_array, mask, "
                "mask_linear, has_index, get_from_index, persist-reopen) the line-by-line models of FileArray and DictArray produce the outputs of "
                "the reference masked array (refines_seq), hence agree with each other; key errors exactly for wrong rank / out-of-range ints; "
                "row-major linear indices. Models tied to the real classes (file_array, dict, shared_memory_dict) on every run.",
        "note": "Trusted: Coq kernel; hand-written models of _base.py/_file.py/_dict.py; Python slice/range/unravel tables re-checked against CPython/NumPy "
                "on every run; pickle treated as identity; zarr backends cannot be imported here.",
    },
    "C14": {
        "design_ref": "DESIGN.md section 5 / C14",
        "technique": "Coq invariant + refinement proofs over state-machine models of the four cache classes (induction over all operation sequences) + exhaustive/random differential correspondence incl. two-client schedule exploration",
        "text": "For every operation sequence: LRU/Simple/Hybrid/Disk models never raise, keep their representation invariants (size <= max, "
                "queue = dict domain, ...) and refine abstract policy specs (recency list; scored entries; creation-ordered files with LRU front); "
                "evicted entry is the policy's victim (Hybrid under irreflexive+transitive '<'). Implementation driven along all sequences over a "
                "3-4 key alphabet to depth 4-5, random long sequences, shared=True, and all schedules of two small clients with proxy calls as atomic steps.",
        "note": "Trusted: Coq kernel; hand-written models of cache.py classes; Hybrid arithmetic generic in the theorems, PrimFloat only in the correspondence "
                "(float primitives); real multi-process timing sampled, lock linearizability explored not proved; disk ctime made strictly increasing by the harness.",
    },
    "C15": {
        "design_ref": "DESIGN.md section 5 / C15",
        "technique": "Coq proof over a value-universe model of Python ==, <, hash, sorted() and to_hashable (dispatch order mirrored) + pairwise differential correspondence in two interpreters",
        "text": "key_hashable, eq_implies_key_eq (via canonicity of sorting), key_eq_implies_eq (injectivity; only pandas excluded) and totality are proved "
                "under explicit guards; each guard is matched by a refuted-theorem witness and a recorded known finding on the real code (incomparable "
                "set/dict keys, frozenset partial order, masked arrays, pandas index/dtype loss, Counter zero counts, pickle hash-seed dependence). "
                "Pairs of values incl. look-alikes are run through the real to_hashable in two interpreters with different hash seeds.",
        "note": "Trusted: Coq kernel; hand-written models (PyVal, PySort for <64 elements, ToHashable); cloudpickle/md5 as injective digest; NaN/inf, "
                "lists >= 64 elements not modelled; theorems are guarded partial statements, the unguarded ones are refuted (known findings).",
    },
    "C17": {
        "design_ref": "DESIGN.md section 5 / C17",
        "technique": "Coq proof over a Gallina model of sweep.py (generate/len/product/filtered/MultiSweep/count loop) against a declarative Cartesian-product spec + differential correspondence",
        "text": "len = length of list(), generate = row-major product of zipped groups with constants (setdefault), derivers and exclusion, "
                "add/MultiSweep = concatenation, count_sweep loop counts; product = Cartesian product and filtered_sweep = distinct projections "
                "under stated guards, with refuted-theorem witnesses for the three recorded findings (product loses a zip, empty operand neutral, "
                "filtered ignores an empty dimension).",
        "note": "Trusted: Coq kernel; hand-written model of sweep.py; derivers/excludes are structural (table-driven) in the correspondence; "
                "set_cache_for_sweep, use_pandas, root-argument computation (C02) not modelled.",
    },
    "C09": {
        "design_ref": "DESIGN.md section 5 / C09",
        "technique": "Coq invariant proof over call/mutation histories (cache_inv: every resident entry equals the uncached evaluation) on a model of Pipeline._run with its cache branch + twin-pipeline differential correspondence",
        "text": "Theorem C09_cache_transparent: for every lawful cache policy (simple and LRU instances proved lawful), pipeline, choice of cached "
                "functions and history of calls (full_output, supplied intermediates, surplus/missing keywords) interleaved with "
                "update_defaults/update_bound/replace, every call that succeeds uncached returns an equal value cached; resident entries are not "
                "re-executed; the map path is transparent per _get_or_set_cache call. Proved for the repaired code (three fix: commits); the "
                "code-as-found model is refuted by four witnesses. Cached/uncached twins of real pipelines are run through the same histories.",
        "note": "Trusted: Coq kernel; hand-written model (uncached twin proved equal to C02's Pipe.run); side condition roots_okb (root_args well-behaved) is "
                "evaluated per case, not derived; hybrid/disk eviction and shared/parallel caches not modelled (values only compared).",
    },
    "C12": {
        "design_ref": "DESIGN.md section 5 / C12",
        "technique": "Coq soundness/completeness proofs of a model of the validators (incl. exception classes, post-construction mutations) + a per-run TRANSLATOR (Python ast -> Coq step lists of prepare_run/RunInfo.create/init_store and of Pipeline.run's entry) on whose regenerated terms 'all checks precede all effects / the first user call' is proved by computation + single-fault mutation correspondence",
        "text": "validate_construct/validate_map accept only well-formed pipelines/requests and reject every listed fault class with the exception class the code raises; "
                "a pipeline made ill-formed after construction (member- or pipeline-level update_*/add/replace) is rejected at the mutation or at the next use; a rejected "
                "request has an empty call log and (cleanup=False) an empty effect trace; Pipeline.run validates its keywords before the first user call (repaired: dc990ae); "
                "validate_construct = Ok implies Pipe.wf_pipelineb, the precondition of the C02/C09/C10/C18 theorems. The order of checks and effects is re-extracted from "
                "/repo's source on every run and the ordering theorems are re-proved on those terms; the callee classification is validated by audit hooks. Valid cases "
                "subjected to each single-fault mutation must raise, run no user function and leave the folder byte-identical.",
        "note": "Trusted: Coq kernel; hand-written validator models; translator + its Check/Effect/Pure classification table (dynamically validated); shape-error classes "
                "inside map_shapes only by correspondence; scopes/resources/type annotations (C16) not modelled.",
    },
    "C16": {
        "design_ref": "DESIGN.md section 5 / C16",
        "technique": "Coq proof that the dispatch-order model of is_type_compatible decides an inductive declarative subtyping relation (compat <-> sub) + exhaustive/random pair correspondence on real typing objects",
        "text": "compat is reflexive, Any/missing annotation behave as stated, union source = all / union target = some, compat a b <-> sub (vars_unknown a) b "
                "for every well-formed annotation (complete description of the code), compat_iff_sub under 'no TypeVar source' (refuted without: recorded "
                "finding), subb decides sub, pipeline-level accept/reject theorems under stated guards, validation off accepts all; reference proved sound "
                "against a set denotation on the static fragment. Seven defects repaired (arity, Annotated direction/metadata/unions, Array element, "
                "constrained TypeVar).",
        "note": "Trusted: Coq kernel; hand-written models of typing.py and validate_consistent_type_annotations; issubclass as a fixed lattice; forward references, "
                "variadic tuples, NDArray aliases, tuple output annotations, auto-generated MapSpecs outside the grammar.",
    },
    "C19": {
        "design_ref": "DESIGN.md section 5 / C19",
        "technique": "Coq proof over a model of the xarray labelling logic (trace_dependencies, mapspec_axes, _xarray coordinates) against a declarative 'carried along axis' relation + correspondence on real xarray.Dataset objects",
        "text": "dims are the MapSpec axes, a 1-D root input mapped along k is a coordinate on exactly k, zipped inputs form one ':'-joined coordinate, unmapped "
                "outputs are plain, values are the C01 denotation, selecting the n-th coordinate value returns the denotation at n (partial: xarray's label lookup "
                "observed, not modelled). Both dataset constructors are compared on real xarray objects incl. .sel on every coordinate value. Three recorded "
                "findings (zipped coordinate not selectable, axis name reused with different sizes, unmapped n-d array output).",
        "note": "Trusted: Coq kernel; hand-written model of xarray.py/_mapspec.py labelling; xarray/pandas object construction and merge observed, not modelled (partial).",
    },
    "C20": {
        "design_ref": "DESIGN.md section 5 / C20",
        "technique": "Coq proof over a hand-written Gallina model of resources.py (exact rational sizes, explicit aliasing state) + per-run differential correspondence (vm_compute)",
        "text": "Coq theorems for all Resources values: combine_max is an upper bound in cpus/gpus/memory-by-size/time-by-duration and leaves "
                "operands untouched, with_defaults keeps set fields, no combinator mutates or aliases its operands, from_dict(dict r)=r, "
                "the constructor accepts exactly the valid combinations and strings (scanners proved equivalent to the regex grammars); "
                "to_slurm_options mentions every set quantity except the recorded finding gpus=0 (refuted + guarded partial theorem). "
                "Model tied to /repo per run by differential execution; spec_ok (Coq) judges the implementation's observations.",
        "note": "Trusted: Coq kernel + vm_compute; hand-written model; harness. Float rounding of _convert_to_gb not modelled (memory strings "
                "<= 6 significant digits); non-ASCII digits and callable resources out of scope.",
    },
}

NOT_YET = "not claimed yet: model/proofs for this property are not built in this revision (see DESIGN.md section 9 build order)"

# properties whose check exists but is temporarily not claimed (reason goes to MANIFEST.not_applicable)
SUSPENDED = {}
