#!/bin/bash
# Developer-side: run every claimed check (quick tier by default) on /repo itself, sequentially; summary lines only.
cd "$(dirname "$0")/.."
TIER=${1:-quick}
for P in $(python3 -c "import json; print(' '.join(c['property_id'] for c in json.load(open('MANIFEST.json'))['checks']))"); do
  ./check $P --tier $TIER > /tmp/runall_$P.log 2>&1; rc=$?
  echo "rc=$rc $(grep -E "^\[$P\]" /tmp/runall_$P.log | tail -1) $(grep -c KNOWN-FINDING /tmp/runall_$P.log) known"
  grep -E "VIOLATION|INFRA" /tmp/runall_$P.log | head -3
done
