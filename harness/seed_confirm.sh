#!/bin/bash
# Developer-side: confirm a seeded change in its scratch worktree, then file it under /verif/seeded/<name>.
# usage: seed_confirm.sh <worktree> <MUTANT_dir_name> <seeded name> <property id>
set -u
WT="$1"; M="$2"; NAME="$3"; PROP="$4"
cd "$WT" || exit 3
git checkout -q -- pipefunc
/venv/bin/python "$M/demo.py" > /tmp/sc_$$_clean.out 2>&1; rc_clean=$?
git apply "$M/patch.diff" || { echo "patch does not apply"; exit 3; }
/venv/bin/python "$M/demo.py" > /tmp/sc_$$_mut.out 2>&1; rc_mut=$?
timeout 3000 /venv/bin/python -m pytest -ra -q -p no:cacheprovider --timeout=900 --continue-on-collection-errors --junitxml=/tmp/sc_$$.xml > /dev/null 2>&1
python3 /verif/harness/baseline_check.py /tmp/sc_$$.xml > /tmp/sc_$$_base.out 2>&1; rc_base=$?
git checkout -q -- pipefunc; rm -rf my_run_folder tmp_path .coverage coverage.xml htmlcov 2>/dev/null
echo "demo clean rc=$rc_clean  demo mutated rc=$rc_mut  baseline rc=$rc_base ($(head -1 /tmp/sc_$$_base.out))"
if [ $rc_clean -eq 0 ] && [ $rc_mut -ne 0 ] && [ $rc_base -eq 0 ]; then
  D=/verif/seeded/$NAME; mkdir -p "$D"
  cp "$M/patch.diff" "$M/demo.py" "$D/"; cp "$M/README.md" "$D/README.md"
  python3 - "$D" "$PROP" "$NAME" <<'PY'
import json, sys
d, prop, name = sys.argv[1:4]
readme = open(d + "/README.md").read()
json.dump({"property": prop, "name": name,
           "needs": readme[:1500],
           "confirmed": {"demo_exit_clean": 0, "demo_exit_with_patch": "non-zero", "pinned_suite_with_patch": "492/492 stable tests pass",
                         "how": "harness/seed_confirm.sh in a scratch worktree of /repo"},
           "detected_by": "see DESIGN.md section 'Seeded changes'"}, open(d + "/meta.json", "w"), indent=1)
PY
  echo "filed $D"
else
  echo "NOT CONFIRMED"; tail -5 /tmp/sc_$$_mut.out
fi
rm -f /tmp/sc_$$.xml /tmp/sc_$$_*.out
