#!/bin/bash
# Developer-side: apply a seeded change to /repo, run the quick check(s) of the property, undo the change.
# usage: harness/seeded_run.sh seeded/<name> [Cxx ...]
set -u
D="$1"; shift
PROPS="$@"
[ -z "$PROPS" ] && PROPS=$(python3 -c "import json,sys; print(json.load(open('$D/meta.json'))['property'])")
cd /verif
git -C /repo diff --quiet || { echo "/repo not clean"; exit 3; }
git -C /repo apply --3way "$PWD/$D/patch.diff" 2>/dev/null || git -C /repo apply "$PWD/$D/patch.diff" || { echo "patch does not apply"; exit 3; }
for P in $PROPS; do
  ./check "$P" --tier quick > "/tmp/seeded_$$.log" 2>&1; rc=$?
  echo "== $D $P rc=$rc"; grep -E "VIOLATION|KNOWN-FINDING|^\[$P\]|INFRA" "/tmp/seeded_$$.log" | cut -c1-300
done
rm -f "/tmp/seeded_$$.log"
git -C /repo checkout -q HEAD -- .
