#!/bin/bash
# Developer-side: apply a seeded change to a scratch worktree of /repo (HEAD), run the quick check(s) of the
# property against it (VERIF_REPO), remove the worktree.   usage: harness/seeded_run.sh seeded/<name> [Cxx ...]
set -u
D="$1"; shift
PROPS="$@"
cd /verif
[ -z "$PROPS" ] && PROPS=$(python3 -c "import json,sys; print(json.load(open('$D/meta.json'))['property'])")
WT=/tmp/seedrepo_$$
git -C /repo worktree add -q --detach "$WT" HEAD || exit 3
if ! git -C "$WT" apply --3way "$PWD/$D/patch.diff" 2>/dev/null && ! git -C "$WT" apply "$PWD/$D/patch.diff"; then
  echo "== $D patch does not apply to /repo HEAD"; git -C /repo worktree remove --force "$WT"; exit 3
fi
for P in $PROPS; do
  VERIF_EVIDENCE_DIR=/tmp/seeded_evidence_$$ VERIF_REPO="$WT" ./check "$P" --tier ${SEED_TIER:-quick} > "/tmp/seeded_$$.log" 2>&1; rc=$?
  echo "== $D $P rc=$rc"; grep -E "VIOLATION|^\[$P\]|INFRA" "/tmp/seeded_$$.log" | cut -c1-300
done
rm -rf "/tmp/seeded_$$.log" /tmp/seeded_evidence_$$
git -C /repo worktree remove --force "$WT"
