"""Structural user functions shared by the pipeline-level checks (C02, C09-C13, C18, ...).

Convention (DESIGN 2.5, mirrored in Coq by Model/Pipe.v `Sym.app`, `Sym.body`, `Sym.pick`):

* a function created for name ``f`` with parameters ``p1..pn`` (ORIGINAL parameter names, signature order)
  returns the S-expression STRING  ``f(p1=<v1>,p2=<v2>)``  where ``<v>`` is ``canon(v)``:
  ints as decimal, strings as themselves, ``None`` as ``None``, bools as ``True``/``False``,
  lists / tuples / arrays as ``[v1,v2]`` (nested), a masked element as ``--``;
* a function with several outputs ``(o1..ok)`` returns the tuple ``("out(o1;<app>)", ..., "out(ok;<app>)")``
  where ``<app>`` is the string above (``ok`` are the output names the SymFunc was built with);
* a function may RETURN ``None`` (real Python None; its canonical string, and its value in the Coq models, is
  ``None``): with ``none_prefix="nil"`` a single-output function whose NAME starts with ``nil`` returns None, and
  the member of a tuple output whose OUTPUT NAME starts with ``nil`` is None (Coq: Model/SymNone.v ``SymN``);
* every call appends one line -- exactly the ``<app>`` string -- to a call log.  The logger is pluggable:
  ``ListLog`` (in-process list) or ``FileLog`` (O_APPEND file, usable from worker processes).

Values flowing through a pipeline are therefore plain strings and any difference in argument routing,
evaluation count or order is observable.  SymFunc instances are ordinary picklable objects (importable
class, plain attributes) as long as their logger is picklable (FileLog is; ListLog is copied by pickling and
therefore only meaningful in-process).
"""
from __future__ import annotations

import inspect
import os


def canon(v) -> str:
    """Canonical string of an argument value."""
    if isinstance(v, str):
        return v
    if v is None:
        return "None"
    if isinstance(v, bool):
        return "True" if v else "False"
    if isinstance(v, int):
        return str(v)
    try:
        import numpy as np
    except Exception:  # noqa: BLE001  pragma: no cover
        np = None
    if np is not None:
        if v is np.ma.masked:
            return "--"
        if isinstance(v, np.ma.MaskedArray):
            if v.ndim == 0:
                return "--" if bool(v.mask) else canon(v.item())
            return "[" + ",".join(canon(v[i]) for i in range(v.shape[0])) + "]"
        if isinstance(v, np.ndarray):
            if v.ndim == 0:
                return canon(v.item())
            return "[" + ",".join(canon(x) for x in v) + "]"
        if isinstance(v, np.generic):
            return canon(v.item())
    if isinstance(v, (list, tuple)):
        return "[" + ",".join(canon(x) for x in v) + "]"
    if isinstance(v, dict):
        return "{" + ",".join(f"{canon(k)}:{canon(x)}" for k, x in v.items()) + "}"
    if hasattr(v, "to_array"):  # pipefunc storage objects
        return canon(v.to_array())
    return f"<{type(v).__name__}>"


class ListLog:
    """In-process call log (a Python list of lines)."""

    def __init__(self):
        self.lines: list[str] = []

    def append(self, line: str) -> None:
        self.lines.append(line)

    def read(self) -> list[str]:
        return list(self.lines)

    def clear(self) -> None:
        self.lines.clear()

    def __len__(self):
        return len(self.lines)


class FileLog:
    """Append-only call log in a file (one short line per call, O_APPEND => safe from several processes)."""

    def __init__(self, path):
        self.path = str(path)

    def append(self, line: str) -> None:
        fd = os.open(self.path, os.O_WRONLY | os.O_APPEND | os.O_CREAT, 0o644)
        try:
            os.write(fd, (line.replace("\n", "\\n") + "\n").encode())
        finally:
            os.close(fd)

    def read(self) -> list[str]:
        try:
            with open(self.path, encoding="utf-8") as f:
                return [ln.rstrip("\n") for ln in f]
        except FileNotFoundError:
            return []

    def clear(self) -> None:
        with open(self.path, "w"):
            pass

    def __len__(self):
        return len(self.read())


class SymRaise(Exception):
    """Never raised by pipefunc itself; available to generators that want a foreign exception class."""


def app_string(name: str, params, kwargs) -> str:
    return name + "(" + ",".join(f"{p}={canon(kwargs[p])}" for p in params) + ")"


class SymFunc:
    """Structural user function ``name(p1, .., pn)``.

    name     : function name (``__name__``; shows up in the result string and in the call log)
    params   : original parameter names in signature order
    sig_defaults : {original parameter name: default value} (signature defaults; parameters with defaults
               must come last, as in Python)
    outputs  : None / a str (single output -> returns the app string) or a tuple/list of >= 1 output names
               (-> returns a tuple of ``out(<name>;<app>)``)
    log      : object with ``append(line)``
    fail     : optional {app string or '*': exception instance/class} -- the call raises AFTER logging
    none_prefix : optional str -- see the module docstring (functions / tuple members that are None)
    """

    def __init__(self, name, params, outputs=None, log=None, sig_defaults=None, fail=None, none_prefix=None):
        self.__name__ = name
        self.__qualname__ = name
        self.__annotations__ = {}  # pipefunc's type validation reads it on callables that are not functions
        self.params = tuple(params)
        self.outputs = tuple(outputs) if isinstance(outputs, (list, tuple)) else None
        self.log = log
        self.sig_defaults = dict(sig_defaults or {})
        self.fail = dict(fail or {})
        self.none_prefix = none_prefix
        self.__signature__ = inspect.Signature(
            [inspect.Parameter(p, inspect.Parameter.POSITIONAL_OR_KEYWORD,
                               default=self.sig_defaults.get(p, inspect.Parameter.empty))
             for p in self.params])

    def __call__(self, *args, **kwargs):
        b = self.__signature__.bind(*args, **kwargs)
        b.apply_defaults()
        app = app_string(self.__name__, self.params, b.arguments)
        if self.log is not None:
            self.log.append(app)
        exc = self.fail.get(app, self.fail.get("*"))
        if exc is not None:
            raise exc() if isinstance(exc, type) else exc
        npre = self.none_prefix
        if self.outputs is None:
            return None if npre and self.__name__.startswith(npre) else app
        return tuple(None if npre and o.startswith(npre) else f"out({o};{app})" for o in self.outputs)

    def __repr__(self):
        return f"SymFunc({self.__name__}{self.params})"


def out_string(name: str, app: str) -> str:
    return f"out({name};{app})"
