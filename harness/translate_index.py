"""C08 translator: regenerate, from the Python source of the repo working tree, Gallina definitions of the index
arithmetic that MapSpec / the storage arrays use, so that the Coq theorems are re-checked against the CODE'S OWN
definitions on every run.

    python -m harness.translate_index [--repo PATH] [--out coq/gen/Gen_Index.v]

What it does
  * parses (with `ast`; nothing is imported or executed) the functions listed in TARGETS,
  * translates each function body STATEMENT BY STATEMENT (syntax directed, no knowledge of "which function this is")
    into a term of the `result` monad of Base/Prelude.v over the combinators of Base/PyPrim.v:

      x = e / a, b = e1, e2 / x op= e      ->  let v_x := [[e]] in ...                      (shadowing = re-assignment)
      x.append(e)                          ->  let v_x := v_x ++ [[[e]]] in ...
      d[k] = e                (d a dict)   ->  let v_d := py_dict_set eqb v_d [[k]] [[e]] in ...
      for T in IT: body                    ->  bind (py_for [[IT]] (fun T st => [[body]]; Ok st') st0) (fun st => ...)
                                               py_for = fold_left in the monad; st = the variables DEFINED BEFORE the loop
                                               that the body assigns (variables first assigned inside the body are
                                               local to one iteration; using them, or the loop variable, after the loop
                                               is rejected)
      range(a) / range(a, b)               ->  py_range 0 a / py_range a b  (= seq a (b - a))
      zip(a, b)                            ->  py_zip a b (= combine)
      if c: A else: B                      ->  bind (if [[c]] then [[A]]; Ok st' else [[B]]; Ok st') (fun st => ...)
      if x is None / x is not None         ->  match v_x with None => ... | Some v_x => ... end   (narrowing)
      raise E(...)                         ->  Err E
      return e   (last statement only)     ->  Ok [[e]]
      tuple(E for T in IT if C)            ->  g = []; for T in IT: if C: g.append(E)          (then translated as above)
      {K: V for T in IT}                   ->  d = {}; for T in IT: d[K] = V
      A if C else B                        ->  bind (if ...) (fun t => ...)
      a // b, a % b, t[i], d[k], f(args)   ->  bind (py_floordiv a b) ..., py_mod, py_index, py_dict_get, py_f
                                               (everything that can raise is sequenced left to right)
      a + b, a * b, len(t), tuple(t)       ->  a + b, a * b, length t, t
      self.attr                            ->  an extra parameter self_attr of the function (SELF_ATTRS gives its type)
      x.name / x.axes  (x an ArraySpec)    ->  fst x / snd x

  * FAILS CLOSED: any statement, expression, operator, builtin, attribute or annotation outside this list raises
    TranslateError; the function is then NOT emitted, coq/gen/Check_Index.v does not compile and the harness reports
    a VIOLATION of C08 naming the function and the unsupported construct.

Trusted (see TRUSTED in harness/props/c08.py): this file (the table above is the semantics it gives to the Python
subset), Base/PyPrim.v, `int` arguments are non-negative (ints are `nat`: the translator rejects `-`, unary minus,
negative literals, `/`, `**`, so no intermediate value can be negative), `tuple[Any, ...]` is read as a homogeneous
tuple, f-strings of ints/tuples/strs do not raise, the types in SELF_ATTRS / OBJ_ATTRS.
"""
from __future__ import annotations

import ast
import sys
from pathlib import Path

MAPSPEC = "pipefunc/map/_mapspec.py"
BASE = "pipefunc/map/_storage_array/_base.py"
SHAPES = "pipefunc/map/_shapes.py"

# (obligation name, file, qualname) in dependency order (callees first)
TARGETS = [
    ("shape_to_strides", MAPSPEC, "shape_to_strides"),
    ("_shape_to_key", MAPSPEC, "_shape_to_key"),
    ("select_by_mask", BASE, "select_by_mask"),
    ("external_shape_from_mask", SHAPES, "external_shape_from_mask"),
    ("internal_shape_from_mask", SHAPES, "internal_shape_from_mask"),
    ("MapSpec.output_key", MAPSPEC, "MapSpec.output_key"),
    ("MapSpec.input_keys", MAPSPEC, "MapSpec.input_keys"),
]
NAMES = [t[0] for t in TARGETS]

# types: "int" "bool" "str" "key" "msg" "unit" | ("list", T) | ("opt", T) | ("pair", A, B) | ("dict", K, V) | ("tvar", n)
ASPEC = ("pair", "str", ("list", ("opt", "str")))
# attributes of `self` that become parameters: class -> attr -> type.  (`input_indices` is a set: only len() is used.)
SELF_ATTRS = {
    "MapSpec": {
        "input_indices": ("list", "str"),
        "external_indices": ("list", "str"),
        "inputs": ("list", ASPEC),
    },
}
# attribute access on values: (type, attr) -> (projection, result type)
OBJ_ATTRS = {
    (ASPEC, "name"): ("fst", "str"),
    (ASPEC, "axes"): ("snd", ("list", ("opt", "str"))),
}
ERR_CLASSES = {"ValueError", "IndexError", "KeyError", "TypeError", "ZeroDivisionError", "RuntimeError",
               "NotImplementedError", "AssertionError", "AttributeError"}
EQB = {"str": "str_eqb", "int": "Nat.eqb"}


class TranslateError(Exception):
    pass


def unparse(n):
    try:
        return ast.unparse(n)
    except Exception:  # noqa: BLE001
        return type(n).__name__


def bad(node, why):
    raise TranslateError(f"line {getattr(node, 'lineno', '?')}: {why}: `{unparse(node)[:80]}`")


# ------------------------------------------------------------------------------------------------- types
def coq_type(t):
    if t == "int":
        return "nat"
    if t == "bool":
        return "bool"
    if t == "str":
        return "str"
    if t == "key":
        return "py_key"
    if t in ("msg", "unit"):
        return "unit"
    if isinstance(t, tuple):
        if t[0] == "list":
            return f"(list {coq_type(t[1])})"
        if t[0] == "opt":
            return f"(option {coq_type(t[1])})"
        if t[0] == "pair":
            return f"({coq_type(t[1])} * {coq_type(t[2])})"
        if t[0] == "dict":
            return f"(list ({coq_type(t[1])} * {coq_type(t[2])}))"
        if t[0] == "tvar":
            return t[1]
    raise TranslateError(f"no Coq type for {t!r}")


def unify(a, b, node):
    """Least effort unification; None = not yet known."""
    if a is None:
        return b
    if b is None:
        return a
    if a == b:
        return a
    if isinstance(a, tuple) and isinstance(b, tuple) and a[0] == b[0] and len(a) == len(b) and a[0] != "tvar":
        return (a[0],) + tuple(unify(x, y, node) for x, y in zip(a[1:], b[1:]))
    bad(node, f"type mismatch {a!r} vs {b!r}")


def ann_type(a, tvars):
    """Type of an annotation node (annotations are strings under `from __future__ import annotations`? no: ast keeps
    them as expressions)."""
    if isinstance(a, ast.Constant) and isinstance(a.value, str):
        a = ast.parse(a.value, mode="eval").body
    if isinstance(a, ast.Name):
        if a.id == "int":
            return "int"
        if a.id == "bool":
            return "bool"
        if a.id == "str":
            return "str"
        if a.id == "Any":
            tvars.add("A")
            return ("tvar", "A")
    if isinstance(a, ast.BinOp) and isinstance(a.op, ast.BitOr):      # slice | int
        l, r = ann_type(a.left, tvars), ann_type(a.right, tvars)
        if {l, r} == {"key", "int"} or l == r == "key":
            return "key"
    if isinstance(a, ast.Name) and a.id == "slice":
        return "key"
    if isinstance(a, ast.Subscript) and isinstance(a.value, ast.Name):
        if a.value.id == "tuple" and isinstance(a.slice, ast.Tuple) and len(a.slice.elts) == 2 \
                and isinstance(a.slice.elts[1], ast.Constant) and a.slice.elts[1].value is Ellipsis:
            return ("list", ann_type(a.slice.elts[0], tvars))
        if a.value.id == "dict" and isinstance(a.slice, ast.Tuple) and len(a.slice.elts) == 2:
            return ("dict", ann_type(a.slice.elts[0], tvars), ann_type(a.slice.elts[1], tvars))
    bad(a, "unsupported annotation")


# ------------------------------------------------------------------------------------------------- rendering
def render(pre, final, ind):
    """pre: list of ("let", pat, rhs) | ("bind", pat, rhs) | ("match", scrut, none_branch, var)   (the last one wraps the
    REST in the Some branch).  Returns the nested term."""
    out, closes = [], ""
    for p in pre:
        if p[0] == "let":
            out.append(f"{ind}let {p[1]} := {p[2]} in")
        elif p[0] == "bind":
            out.append(f"{ind}bind ({p[2]})")
            out.append(f"{ind}(fun {p[1]} =>")
            closes += ")"
        else:
            raise AssertionError(p)
    out.append(f"{ind}{final}{closes}")
    return "\n".join(out)


def reindent(term):
    """Indent every line by the parenthesis depth at its start (layout only)."""
    out, depth = [], 0
    for line in term.splitlines():
        line = line.strip()
        if not line:
            continue
        extra = 1 if line.startswith(("then", "else", "|")) else (2 if out and out[-1].strip() in ("then", "else")
                                                                  or (out and out[-1].strip().startswith("|")) else 0)
        out.append("  " * (1 + depth) + " " * extra + line)
        depth += line.count("(") - line.count(")")
    return "\n".join(out)


def pat(names):
    if not names:
        return "_"
    if len(names) == 1:
        return "v_" + names[0]
    return "'(" + ", ".join("v_" + n for n in names) + ")"


def tup(names):
    if not names:
        return "tt"
    if len(names) == 1:
        return "v_" + names[0]
    return "(" + ", ".join("v_" + n for n in names) + ")"


def assigned_vars(stmts):
    """Names assigned anywhere in the statements (in order of first occurrence), excluding nothing."""
    out = []

    def add(n):
        if n not in out:
            out.append(n)

    def tgt(t):
        if isinstance(t, ast.Name):
            add(t.id)
        elif isinstance(t, ast.Tuple):
            for e in t.elts:
                tgt(e)
        elif isinstance(t, ast.Subscript) and isinstance(t.value, ast.Name):
            add(t.value.id)
        else:
            bad(t, "unsupported assignment target")

    def walk(ss):
        for s in ss:
            if isinstance(s, ast.Assign):
                for t in s.targets:
                    tgt(t)
            elif isinstance(s, ast.AugAssign):
                tgt(s.target)
            elif isinstance(s, ast.Expr) and isinstance(s.value, ast.Call) and isinstance(s.value.func, ast.Attribute) \
                    and s.value.func.attr == "append" and isinstance(s.value.func.value, ast.Name):
                add(s.value.func.value.id)
            elif isinstance(s, ast.For):
                tgt(s.target)
                walk(s.body)
            elif isinstance(s, ast.If):
                walk(s.body)
                walk(s.orelse)
    walk(stmts)
    return out


# ------------------------------------------------------------------------------------------------- one function
class Fn:
    def __init__(self, name, node, cls, known, rel=None):
        self.name, self.node, self.cls, self.rel = name, node, cls, rel
        self.mut = set()              # local variables holding a list/dict created HERE by a display `[]` / `{}`
        self.known = known            # translated module-level functions: python name -> (coq name, [param types],
                                      #                                                     ret type, file)
        self.tmp = 0
        self.tvars = set()
        self.self_params = []         # attrs of self used, in order of first use

    def fresh(self, base="t"):
        self.tmp += 1
        return f"{base}{self.tmp}"

    # ---------------------------------------------------------------- expressions
    def expr(self, e, env):
        """-> (pre, term, type).  `pre` sequences everything that can raise, left to right."""
        if isinstance(e, ast.Constant):
            if isinstance(e.value, bool):
                return [], ("true" if e.value else "false"), "bool"
            if isinstance(e.value, int) and e.value >= 0:
                return [], str(e.value), "int"
            bad(e, "unsupported constant")
        if isinstance(e, ast.Name):
            if e.id not in env:
                bad(e, "variable not (certainly) defined here")
            return [], "v_" + e.id, env[e.id]
        if isinstance(e, ast.List) and not e.elts:
            return [], "[]", ("list", None)
        if isinstance(e, ast.Dict) and not e.keys:
            return [], "[]", ("dict", None, None)
        if isinstance(e, ast.BinOp):
            p1, a, ta = self.expr(e.left, env)
            p2, b, tb = self.expr(e.right, env)
            if ta != "int" or tb != "int":
                bad(e, "arithmetic on non-int")
            if isinstance(e.op, ast.Add):
                return p1 + p2, f"({a} + {b})", "int"
            if isinstance(e.op, ast.Mult):
                return p1 + p2, f"({a} * {b})", "int"
            if isinstance(e.op, (ast.FloorDiv, ast.Mod)):
                t = "v_" + self.fresh()
                f = "py_floordiv" if isinstance(e.op, ast.FloorDiv) else "py_mod"
                return p1 + p2 + [("bind", t, f"{f} {a} {b}")], t, "int"
            bad(e, "unsupported arithmetic operator")
        if isinstance(e, ast.Subscript):
            p1, a, ta = self.expr(e.value, env)
            p2, i, ti = self.expr(e.slice, env)
            t = "v_" + self.fresh()
            if isinstance(ta, tuple) and ta[0] == "list" and ti == "int":
                return p1 + p2 + [("bind", t, f"py_index {a} {i}")], t, ta[1]
            if isinstance(ta, tuple) and ta[0] == "dict" and ti == ta[1] and ti in EQB:
                return p1 + p2 + [("bind", t, f"py_dict_get {EQB[ti]} {a} {i}")], t, ta[2]
            bad(e, f"unsupported subscript ({ta!r}[{ti!r}])")
        if isinstance(e, ast.Attribute):
            if isinstance(e.value, ast.Name) and e.value.id == "self" and self.cls:
                ty = SELF_ATTRS.get(self.cls, {}).get(e.attr)
                if ty is None:
                    bad(e, "attribute of self not in SELF_ATTRS")
                if e.attr not in self.self_params:
                    self.self_params.append(e.attr)
                return [], "self_" + e.attr, ty
            p, a, ta = self.expr(e.value, env)
            if (ta, e.attr) in OBJ_ATTRS:
                proj, ty = OBJ_ATTRS[(ta, e.attr)]
                return p, f"({proj} {a})", ty
            bad(e, f"unsupported attribute access on {ta!r}")
        if isinstance(e, ast.Compare) and len(e.ops) == 1:
            p1, a, ta = self.expr(e.left, env)
            p2, b, tb = self.expr(e.comparators[0], env)
            op = e.ops[0]
            if ta == tb == "int":
                if isinstance(op, ast.Eq):
                    return p1 + p2, f"({a} =? {b})", "bool"
                if isinstance(op, ast.NotEq):
                    return p1 + p2, f"(negb ({a} =? {b}))", "bool"
                if isinstance(op, ast.Lt):
                    return p1 + p2, f"({a} <? {b})", "bool"
                if isinstance(op, ast.LtE):
                    return p1 + p2, f"({a} <=? {b})", "bool"
            bad(e, "unsupported comparison")
        if isinstance(e, ast.UnaryOp) and isinstance(e.op, ast.Not):
            p, a, ta = self.expr(e.operand, env)
            if ta != "bool":
                bad(e, "`not` on a non-bool (truthiness is not modelled)")
            return p, f"(negb {a})", "bool"
        if isinstance(e, ast.JoinedStr):
            for v in e.values:
                if isinstance(v, ast.Constant):
                    continue
                if not (isinstance(v, ast.FormattedValue) and v.format_spec is None):
                    bad(e, "unsupported f-string")
                p, _, tv = self.expr(v.value, env)
                if p or tv not in ("int", "str", ("list", "int")):
                    bad(e, "f-string over a value whose formatting is not known to be total")
            return [], "tt", "msg"
        if isinstance(e, ast.IfExp):
            return self.ifexp(e, env)
        if isinstance(e, ast.DictComp):
            return self.genexp(e, env, dictcomp=True)
        if isinstance(e, ast.Call):
            return self.call(e, env)
        bad(e, "unsupported expression")

    def narrowing(self, test, env):
        """`x is None` / `x is not None` on a variable of option type -> (var, none_is_then)."""
        if isinstance(test, ast.Compare) and len(test.ops) == 1 and isinstance(test.ops[0], (ast.Is, ast.IsNot)) \
                and isinstance(test.left, ast.Name) and isinstance(test.comparators[0], ast.Constant) \
                and test.comparators[0].value is None:
            ty = env.get(test.left.id)
            if isinstance(ty, tuple) and ty[0] == "opt":
                return test.left.id, isinstance(test.ops[0], ast.Is)
            bad(test, "`is None` on a variable that is not optional")
        return None

    def ifexp(self, e, env):
        def branch(x, env_):
            p, a, t = self.expr(x, env_)
            return p, a, t

        nar = self.narrowing(e.test, env)
        t = "v_" + self.fresh()
        if nar:
            var, none_then = nar
            env_some = dict(env)
            env_some[var] = env[var][1]
            none_e, some_e = (e.body, e.orelse) if none_then else (e.orelse, e.body)
            pn, an, tn = branch(none_e, env)
            ps, as_, ts = branch(some_e, env_some)
            an, as_, ty = self.join(an, tn, as_, ts, e)
            term = (f"match v_{var} with\n  | None =>\n{render(pn, f'Ok {an}', '      ')}\n"
                    f"  | Some v_{var} =>\n{render(ps, f'Ok {as_}', '      ')}\n  end")
            return [("bind", t, term)], t, ty
        pc, c, tc = self.expr(e.test, env)
        if tc != "bool":
            bad(e.test, "condition is not a bool (truthiness is not modelled)")
        p1, a, ta = branch(e.body, env)
        p2, b, tb = branch(e.orelse, env)
        a, b, ty = self.join(a, ta, b, tb, e)
        term = f"if {c}\n  then\n{render(p1, f'Ok {a}', '      ')}\n  else\n{render(p2, f'Ok {b}', '      ')}"
        return pc + [("bind", t, term)], t, ty

    def join(self, a, ta, b, tb, node):
        """Result type of a conditional expression; `slice | int` is the sum type py_key."""
        if {ta, tb} == {"key", "int"}:
            return (a if ta == "key" else f"(PyInt {a})"), (b if tb == "key" else f"(PyInt {b})"), "key"
        return a, b, unify(ta, tb, node)

    def call(self, e, env):
        if e.keywords:
            bad(e, "keyword arguments")
        f = e.func
        if isinstance(f, ast.Name) and f.id in env:
            bad(e, "call of a local variable (a builtin or function name is shadowed)")
        if isinstance(f, ast.Name):
            if f.id == "len" and len(e.args) == 1:
                p, a, ta = self.expr(e.args[0], env)
                if not (isinstance(ta, tuple) and ta[0] == "list"):
                    bad(e, "len of a non-sequence")
                return p, f"(length {a})", "int"
            if f.id == "tuple" and len(e.args) == 1:
                if isinstance(e.args[0], ast.GeneratorExp):
                    return self.genexp(e.args[0], env)
                p, a, ta = self.expr(e.args[0], env)
                if not (isinstance(ta, tuple) and ta[0] == "list"):
                    bad(e, "tuple() of a non-sequence")
                return p, a, ta
            if f.id == "dict" and len(e.args) == 1:
                p, a, ta = self.expr(e.args[0], env)
                if isinstance(ta, tuple) and ta[0] == "list" and isinstance(ta[1], tuple) and ta[1][0] == "pair" \
                        and ta[1][1] in EQB:
                    return p, f"(py_dict_of_pairs {EQB[ta[1][1]]} {a})", ("dict", ta[1][1], ta[1][2])
                bad(e, "dict() of something that is not a sequence of pairs with str/int keys")
            if f.id == "zip" and len(e.args) == 2:
                p1, a, ta = self.expr(e.args[0], env)
                p2, b, tb = self.expr(e.args[1], env)
                if not (isinstance(ta, tuple) and ta[0] == "list" and isinstance(tb, tuple) and tb[0] == "list"):
                    bad(e, "zip of non-sequences")
                return p1 + p2, f"(py_zip {a} {b})", ("list", ("pair", ta[1], tb[1]))
            if f.id == "range" and len(e.args) in (1, 2):
                ps, ts = [], []
                for x in e.args:
                    p, a, ta = self.expr(x, env)
                    if ta != "int":
                        bad(e, "range over non-int")
                    ps += p
                    ts.append(a)
                lo, hi = ("0", ts[0]) if len(ts) == 1 else ts
                return ps, f"(py_range {lo} {hi})", ("list", "int")
            if f.id == "slice" and len(e.args) == 1 and isinstance(e.args[0], ast.Constant) and e.args[0].value is None:
                return [], "PySliceAll", "key"
            if f.id in self.known:
                coq, ptys, rty, rel = self.known[f.id]
                if rel != self.rel:
                    bad(e, "call of a translated function that lives in another module (name resolution not modelled)")
                if len(ptys) != len(e.args):
                    bad(e, "call of a translated function with the wrong arity")
                ps, ts = [], []
                for x, pt in zip(e.args, ptys):
                    p, a, ta = self.expr(x, env)
                    unify(ta, pt, x)
                    ps += p
                    ts.append(a)
                t = "v_" + self.fresh()
                return ps + [("bind", t, f"{coq} " + " ".join(ts))], t, rty
        bad(e, "unsupported call")

    def genexp(self, g, env, dictcomp=False):
        """tuple(E for T in IT if C ...)  ==  acc = []; for T in IT: if C: acc.append(E)
           {K: V for T in IT if C ...}     ==  acc = {}; for T in IT: if C: acc[K] = V"""
        if len(g.generators) != 1 or g.generators[0].is_async:
            bad(g, "nested generators")
        gen = g.generators[0]
        acc = ("_d" if dictcomp else "_g") + self.fresh("")
        ln = getattr(g, "lineno", 0)
        if dictcomp:
            upd = ast.Assign([ast.Subscript(ast.Name(acc, ast.Load()), g.key, ast.Store())], g.value, lineno=ln)
        else:
            upd = ast.Expr(ast.Call(ast.Attribute(ast.Name(acc, ast.Load()), "append", ast.Load()), [g.elt], []))
        body = [upd]
        for c in reversed(gen.ifs):
            body = [ast.If(c, body, [], lineno=ln)]
        loop = ast.For(gen.target, gen.iter, body, [], lineno=ln)
        env2 = dict(env)
        env2[acc] = ("dict", None, None) if dictcomp else ("list", None)
        holder = {}
        self.mut.add(acc)
        pre = [("let", "v_" + acc, "[]")] + self.stmts_pre([loop], env2, holder)
        self.mut.discard(acc)            # the finished tuple / dict is never mutated again (fresh name, used once)
        return pre, "v_" + acc, holder["env"][acc]

    # ---------------------------------------------------------------- statements
    def stmts_pre(self, stmts, env, holder):
        """Translate statements that do not end the function; returns the prefix and stores the final env in holder."""
        pre = []
        for i, s in enumerate(stmts):
            env, p, ended = self.stmt(s, env, stmts[i + 1:])
            pre += p
            if ended:
                bad(s, "return/raise in a position where the translation needs fall-through")
        holder["env"] = env
        return pre

    def block(self, stmts, env, tail, ind):
        """Translate a block; `tail(env)` gives the final term when the block falls through.  Returns a term."""
        pre = []
        for i, s in enumerate(stmts):
            rest = stmts[i + 1:]
            if isinstance(s, ast.Return):
                if rest:
                    bad(rest[0], "statements after return")
                if s.value is None:
                    bad(s, "bare return")
                p, a, ta = self.expr(s.value, env)
                self.ret_ty = unify(getattr(self, "ret_ty", None), ta, s)
                if not self.at_top:
                    bad(s, "return inside a loop or branch")
                return render(pre + p, f"Ok {a}", ind)
            if isinstance(s, ast.Raise):
                if rest:
                    bad(rest[0], "statements after raise")
                return render(pre + self.raise_pre(s, env), f"Err {self.exc_class(s)}", ind)
            env, p, _ = self.stmt(s, env, rest)
            pre += p
        if tail is None:
            bad(stmts[-1] if stmts else self.node, "control reaches the end of the function without return")
        return render(pre, tail(env), ind)

    def exc_class(self, s):
        x = s.exc
        if isinstance(x, ast.Call):
            x = x.func
        if isinstance(x, ast.Name) and x.id in ERR_CLASSES and s.cause is None:
            return x.id
        bad(s, "unsupported raise")

    def raise_pre(self, s, env):
        pre = []
        if isinstance(s.exc, ast.Call):
            if s.exc.keywords:
                bad(s, "unsupported raise")
            for a in s.exc.args:
                p, _, ta = self.expr(a, env)
                if ta not in ("msg", "str"):
                    bad(s, "unsupported raise argument")
                pre += p
        return pre

    def no_alias(self, value, node):
        """A mutable local (list/dict display) may not get a second name or be stored inside another container: the
        translation copies values, Python would share the object."""
        if isinstance(value, ast.Name) and value.id in self.mut:
            bad(node, "aliasing of a mutable local list/dict")

    def bind_var(self, env, name, ty, node):
        env = dict(env)
        env[name] = unify(None, ty, node) if name not in env else self.reassign(env[name], ty, node)
        return env

    def reassign(self, old, new, node):
        return unify(old, new, node)

    def stmt(self, s, env, rest):
        """-> (env', pre, ended)"""
        if isinstance(s, ast.Expr) and isinstance(s.value, ast.Constant) and isinstance(s.value.value, str):
            return env, [], False                                               # docstring
        if isinstance(s, ast.Assign) and len(s.targets) == 1:
            t = s.targets[0]
            if isinstance(t, ast.Name):
                p, a, ta = self.expr(s.value, env)
                self.no_alias(s.value, s)
                if isinstance(s.value, (ast.List, ast.Dict)):
                    self.mut.add(t.id)
                else:
                    self.mut.discard(t.id)
                return self.bind_var(env, t.id, ta, s), p + [("let", "v_" + t.id, a)], False
            if isinstance(t, ast.Tuple) and isinstance(s.value, ast.Tuple) and len(t.elts) == len(s.value.elts) \
                    and all(isinstance(x, ast.Name) for x in t.elts):
                pre, terms = [], []
                for x in s.value.elts:
                    p, a, ta = self.expr(x, env)
                    pre += p
                    terms.append((a, ta))
                for x, v in zip(t.elts, s.value.elts):
                    self.no_alias(v, s)
                    if isinstance(v, (ast.List, ast.Dict)):
                        self.mut.add(x.id)
                    else:
                        self.mut.discard(x.id)
                tmps = []
                for (a, ta), x in zip(terms, t.elts):         # all right-hand sides are evaluated before any binding
                    tm = "v_" + self.fresh()
                    pre.append(("let", tm, a))
                    tmps.append((tm, ta, x))
                for tm, ta, x in tmps:
                    env = self.bind_var(env, x.id, ta, s)
                    pre.append(("let", "v_" + x.id, tm))
                return env, pre, False
            if isinstance(t, ast.Subscript) and isinstance(t.value, ast.Name):
                d = t.value.id
                if d not in env or d not in self.mut or not (isinstance(env[d], tuple) and env[d][0] == "dict"):
                    bad(s, "item assignment on something that is not a dict created in this function")
                self.no_alias(s.value, s)
                pk, k, tk = self.expr(t.slice, env)
                pv, v, tv = self.expr(s.value, env)          # Python evaluates the value first, then the key
                if pk and pv:
                    bad(s, "item assignment where both key and value can raise")
                ty = unify(env[d], ("dict", tk, tv), s)
                if ty[1] not in EQB:
                    bad(s, "dict key type without decidable equality")
                env = dict(env)
                env[d] = ty
                return env, pv + pk + [("let", "v_" + d, f"py_dict_set {EQB[ty[1]]} v_{d} {k} {v}")], False
            bad(s, "unsupported assignment")
        if isinstance(s, ast.AugAssign) and isinstance(s.target, ast.Name):
            x = s.target.id
            if x not in env:
                bad(s, "augmented assignment to an undefined variable")
            p, a, ta = self.expr(s.value, env)
            if env[x] != "int" or ta != "int":
                bad(s, "augmented assignment on non-int")
            if isinstance(s.op, ast.Add):
                return env, p + [("let", "v_" + x, f"v_{x} + {a}")], False
            if isinstance(s.op, ast.Mult):
                return env, p + [("let", "v_" + x, f"v_{x} * {a}")], False
            bad(s, "unsupported augmented assignment operator")
        if isinstance(s, ast.Expr) and isinstance(s.value, ast.Call) and isinstance(s.value.func, ast.Attribute) \
                and s.value.func.attr == "append" and isinstance(s.value.func.value, ast.Name) \
                and len(s.value.args) == 1 and not s.value.keywords:
            x = s.value.func.value.id
            if x not in env or x not in self.mut or not (isinstance(env[x], tuple) and env[x][0] == "list"):
                bad(s, "append on something that is not a list created in this function")
            self.no_alias(s.value.args[0], s)
            p, a, ta = self.expr(s.value.args[0], env)
            if env[x][1] == "key" and ta == "int":
                a, ta = f"(PyInt {a})", "key"
            ty = unify(env[x], ("list", ta), s)
            env = dict(env)
            env[x] = ty
            return env, p + [("let", "v_" + x, f"v_{x} ++ [{a}]")], False
        if isinstance(s, ast.For):
            return self.for_(s, env)
        if isinstance(s, ast.If):
            return self.if_(s, env)
        bad(s, "unsupported statement")

    def target_pat(self, t, ty, env, node):
        env = dict(env)
        if isinstance(t, ast.Name):
            env[t.id] = ty
            return "v_" + t.id, env, [t.id]
        if isinstance(t, ast.Tuple) and len(t.elts) == 2 and all(isinstance(x, ast.Name) for x in t.elts) \
                and isinstance(ty, tuple) and ty[0] == "pair":
            env[t.elts[0].id], env[t.elts[1].id] = ty[1], ty[2]
            return f"'(v_{t.elts[0].id}, v_{t.elts[1].id})", env, [t.elts[0].id, t.elts[1].id]
        bad(node, "unsupported loop target")

    def for_(self, s, env):
        if s.orelse:
            bad(s, "for-else")
        pi, it, tit = self.expr(s.iter, env)
        if not (isinstance(tit, tuple) and tit[0] == "list"):
            bad(s.iter, "iteration over something that is not a sequence")
        tp, env_body, loopvars = self.target_pat(s.target, tit[1], env, s)
        assigned = assigned_vars(s.body)
        for v in loopvars:
            if v in assigned:
                bad(s, "loop variable re-assigned in the body")
            if v in env:
                bad(s, "loop variable shadows a live variable")
        state = [v for v in assigned if v in env]
        if not state:
            bad(s, "loop without state (no variable defined before the loop is assigned in it)")
        holder = {}

        def tail(env_end):
            holder["env"] = env_end
            return f"Ok {tup(state)}"

        was_top, self.at_top = self.at_top, False
        body = self.block(s.body, env_body, tail, "      ")
        self.at_top = was_top
        env2 = dict(env)
        for v in state:                                   # element types learnt inside the body (e.g. of `[]`)
            env2[v] = unify(env[v], holder["env"][v], s)
        # a second pass with the refined types is not needed: only element types of empty literals are refined
        term = f"py_for {it} (fun {tp} {pat(state)} =>\n{body})\n    {tup(state)}"
        return env2, pi + [("bind", pat(state), term)], False

    def if_(self, s, env):
        assigned = assigned_vars(s.body) + [v for v in assigned_vars(s.orelse) if v not in assigned_vars(s.body)]
        state = [v for v in assigned if v in env]
        holder = {"envs": []}

        def tail(env_end):
            holder["envs"].append(env_end)
            return f"Ok {tup(state)}"

        was_top, self.at_top = self.at_top, False
        nar = self.narrowing(s.test, env)
        if nar:
            var, none_then = nar
            env_some = dict(env)
            env_some[var] = env[var][1]
            if var in state:
                bad(s, "narrowed variable re-assigned")
            none_b, some_b = (s.body, s.orelse) if none_then else (s.orelse, s.body)
            bn = self.block(none_b, env, tail, "      ")
            bs = self.block(some_b, env_some, tail, "      ")
            pc = []
            term = f"match v_{var} with\n  | None =>\n{bn}\n  | Some v_{var} =>\n{bs}\n  end"
        else:
            pc, c, tc = self.expr(s.test, env)
            if tc != "bool":
                bad(s.test, "condition is not a bool (truthiness is not modelled)")
            b1 = self.block(s.body, env, tail, "      ")
            b2 = self.block(s.orelse, env, tail, "      ")
            term = f"if {c}\n  then\n{b1}\n  else\n{b2}"
        self.at_top = was_top
        env2 = dict(env)
        for e_end in holder["envs"]:
            for v in state:
                env2[v] = unify(env2[v], e_end[v], s)
        return env2, pc + [("bind", pat(state), term)], False

    # ---------------------------------------------------------------- the function
    def translate(self):
        n = self.node
        a = n.args
        if a.vararg or a.kwarg or a.kwonlyargs or a.posonlyargs or a.defaults or a.kw_defaults:
            bad(n, "unsupported parameter list")
        if [d for d in n.decorator_list]:
            bad(n, "decorated function")
        params = list(a.args)
        if self.cls:
            if not params or params[0].arg != "self":
                bad(n, "method without self")
            params = params[1:]
        env, ptys = {}, []
        for p in params:
            if p.annotation is None:
                bad(n, f"parameter {p.arg} without annotation")
            ty = ann_type(p.annotation, self.tvars)
            env[p.arg] = ty
            ptys.append(ty)
        if n.returns is None:
            bad(n, "no return annotation")
        rty = ann_type(n.returns, self.tvars)
        self.at_top = True
        self.ret_ty = None
        body = self.block(n.body, env, None, "  ")
        got = unify(self.ret_ty, rty, n)
        coq = "py_" + self.name.replace(".", "_").lstrip("_") if not self.name.startswith("_") else "py" + self.name
        coq = coq.replace(".", "_")
        if self.mut & set(env):
            bad(n, "a parameter is treated as a mutable local")
        sp = [(f"self_{x}", SELF_ATTRS[self.cls][x]) for x in self.self_params]
        binders = "".join(f" {{{v} : Type}}" for v in sorted(self.tvars))
        binders += "".join(f" ({nm} : {coq_type(ty)})" for nm, ty in sp)
        binders += "".join(f" (v_{p.arg} : {coq_type(ty)})" for p, ty in zip(params, ptys))
        text = f"Definition {coq}{binders} : result {coq_type(got)} :=\n{reindent(body)}.\n"
        return coq, text, ptys, got, [x for x, _ in sp]


# ------------------------------------------------------------------------------------------------- driver
def find_function(tree, qual):
    node, cls = tree, None
    parts = qual.split(".")
    for i, part in enumerate(parts):
        found = None
        for ch in node.body:
            if isinstance(ch, (ast.FunctionDef, ast.ClassDef)) and ch.name == part:
                found = ch
        if found is None:
            return None, None
        if isinstance(found, ast.ClassDef) and i < len(parts) - 1:
            cls = found.name
        node = found
    return (node, cls) if isinstance(node, ast.FunctionDef) else (None, None)


def top_level_bindings(tree, name):
    """How many statements of the module bind `name` (def / class / assignment / import), at any nesting of if/try."""
    n = 0
    for node in ast.walk(tree):
        if isinstance(node, (ast.FunctionDef, ast.AsyncFunctionDef, ast.ClassDef)) and node.name == name \
                and node in tree.body:
            n += 1
        elif isinstance(node, (ast.Import, ast.ImportFrom)):
            n += sum(1 for a in node.names if (a.asname or a.name.split(".")[0]) == name)
        elif isinstance(node, ast.Global) and name in node.names:
            n += 1
    for node in tree.body:
        if isinstance(node, (ast.Assign, ast.AnnAssign, ast.AugAssign)):
            tg = node.targets if isinstance(node, ast.Assign) else [node.target]
            n += sum(1 for t in tg for x in ast.walk(t) if isinstance(x, ast.Name) and x.id == name)
    return n


def translate(repo, sources=None):
    """-> {obligation name: {"coq": name or None, "text": definition or None, "error": message or None}}
    `sources` (file -> text) replaces reading the repo (self-test)."""
    repo = Path(repo)
    out, known, trees = {}, {}, {}
    for name, rel, qual in TARGETS:
        try:
            if rel not in trees:
                trees[rel] = ast.parse(sources[rel] if sources is not None else (repo / rel).read_text())
            node, cls = find_function(trees[rel], qual)
            if node is None:
                raise TranslateError(f"{rel}: function {qual} not found")
            if cls is None and top_level_bindings(trees[rel], qual) != 1:
                raise TranslateError(f"{rel}: the module binds the name {qual} more than once")
            fn = Fn(name, node, cls, known, rel)
            coq, text, ptys, rty, selfp = fn.translate()
            if cls is None:
                known[qual] = (coq, ptys, rty, rel)
            out[name] = {"coq": coq, "text": text, "error": None, "src": f"{rel}:{qual}:{node.lineno}"}
        except (TranslateError, OSError, SyntaxError, RecursionError) as e:      # fail closed
            out[name] = {"coq": None, "text": None, "error": f"{type(e).__name__}: {e}"[:300], "src": f"{rel}:{qual}"}
    return out


def emit_coq(res, repo):
    lines = ["(* GENERATED by harness/translate_index.py from the Python source of " + str(repo) + " -- do not edit.",
             "   Rewritten on every `./check C08`; coq/gen/Check_Index.v is compiled against it. *)",
             "From Verif Require Import Base.Prelude Base.PyPrim.", ""]
    for name, _, _ in TARGETS:
        r = res[name]
        if r["text"] is None:
            lines.append(f"(* {name}: NOT TRANSLATED ({r['src']}): {r['error'].replace('*)', '* )')} *)")
        else:
            lines.append(f"(* {name}  <-  {r['src']} *)")
            lines.append(r["text"])
    return "\n".join(lines) + "\n"


# (function whose translation must FAIL, file, text to replace, replacement): constructs outside the subset.  Each is
# applied to the real source text; the translator accepting one of them means it no longer fails closed.
REJECTED = [
    ("shape_to_strides", MAPSPEC, "product *= shape[j]", "product -= shape[j]"),
    ("shape_to_strides", MAPSPEC, "product *= shape[j]", "product *= shape[-j]"),
    ("shape_to_strides", MAPSPEC, "product *= shape[j]", "product *= shape[j] ** 2"),
    ("shape_to_strides", MAPSPEC, "product *= shape[j]", "product = product * shape[j] / 1"),
    ("shape_to_strides", MAPSPEC, "    strides = []\n", "    strides = []\n    alias = strides\n"),
    ("shape_to_strides", MAPSPEC, "        strides.append(product)", "        shape.append(product)"),
    ("shape_to_strides", MAPSPEC, "    return tuple(strides)", "    return tuple(strides[::-1])"),
    ("shape_to_strides", MAPSPEC, "    return tuple(strides)", "    return tuple(strides), product"),
    ("shape_to_strides", MAPSPEC, "        product = 1\n", "        product = 1\n        if i > 5:\n            break\n"),
    ("shape_to_strides", MAPSPEC, "        product = 1\n", "        product = 1\n        if i == 7:\n            return ()\n"),
    ("shape_to_strides", MAPSPEC, "    strides = []\n", "    strides = []\n    len = max\n"),
    ("shape_to_strides", MAPSPEC, "def shape_to_strides(shape: tuple[int, ...])", "def shape_to_strides(shape: tuple[int, ...], k=2)"),
    ("shape_to_strides", MAPSPEC, "def shape_to_strides(shape: tuple[int, ...])", "def shape_to_strides(shape)"),
    ("shape_to_strides", MAPSPEC, "\n@dataclass(frozen=True, slots=True)\nclass ArraySpec",
     "\nshape_to_strides = None\n\n@dataclass(frozen=True, slots=True)\nclass ArraySpec"),
    ("_shape_to_key", MAPSPEC, "(linear_index // stride) % dim for", "divmod(linear_index // stride, dim)[1] for"),
    ("_shape_to_key", MAPSPEC, "(linear_index // stride) % dim for", "(linear_index // stride) % dim if dim else 0 for"),
    ("_shape_to_key", MAPSPEC, "zip(shape_to_strides(shape), shape)", "zip(shape_to_strides(shape), shape, strict=True)"),
    ("_shape_to_key", MAPSPEC, "zip(shape_to_strides(shape), shape)", "zip(np.cumprod(shape), shape)"),
    ("select_by_mask", BASE, "            index1 += 1", "            index1 += m"),
    ("select_by_mask", BASE, "    for m in mask:", "    for m in reversed(mask):"),
    ("select_by_mask", BASE, "        if m:", "        if m and index1 < 3:"),
    ("select_by_mask", BASE, "    return tuple(result)", "    return tuple(result) if mask else tuple1"),
    ("select_by_mask", BASE, "result.append(tuple1[index1])", "result.append(tuple1[index1]); index2 = index2 or 0"),
    ("external_shape_from_mask", SHAPES, "tuple(s for s, m in zip(shape, mask) if m)", "tuple(s for s, m in zip(shape, mask) if s)"),
    ("internal_shape_from_mask", SHAPES, "tuple(s for s, m in zip(shape, mask) if not m)", "tuple(s for m in mask for s in shape if not m)"),
    ("MapSpec.output_key", MAPSPEC, "return _shape_to_key(shape, linear_index)\n\n    def input_keys",
     "return self._key(shape, linear_index)\n\n    def input_keys"),
    ("MapSpec.input_keys", MAPSPEC, "ids = dict(zip(self.external_indices, key))", "ids = dict(zip(self.output_indices, key))"),
    ("MapSpec.input_keys", MAPSPEC, "else ids[ax] for ax in x.axes", "else ids.get(ax) for ax in x.axes"),
    ("MapSpec.input_keys", MAPSPEC, "for x in self.inputs\n", "for x in self.inputs if x.axes\n"),
]


def selftest(repo):
    """-> list of problems: out-of-subset variants of the real source that the translator ACCEPTS (must be empty)."""
    repo = Path(repo)
    base = {rel: (repo / rel).read_text() for rel in {t[1] for t in TARGETS}}
    if any(r["error"] for r in translate(repo, base).values()):
        return []                       # the unchanged source is already rejected: reported through the obligations
    problems = []
    for fn, rel, old, new in REJECTED:
        if old not in base[rel]:
            continue                    # the source moved on; the obligation proofs decide
        src = dict(base)
        src[rel] = base[rel].replace(old, new, 1)
        try:
            r = translate(repo, src)
        except Exception as e:  # noqa: BLE001
            problems.append(f"translator crashed on `{new[:50]}`: {type(e).__name__}: {e}")
            continue
        if r[fn]["error"] is None:
            problems.append(f"translator accepts `{new.strip()[:60]}` in {fn}")
    return problems


def main(argv):
    repo = Path("/repo")
    outp = None
    it = iter(argv)
    st = False
    for a in it:
        if a == "--repo":
            repo = Path(next(it))
        elif a == "--out":
            outp = Path(next(it))
        elif a == "--selftest":
            st = True
    if st:
        probs = selftest(repo)
        print("\n".join(probs) if probs else f"selftest ok ({len(REJECTED)} out-of-subset variants rejected)")
        return 1 if probs else 0
    res = translate(repo)
    txt = emit_coq(res, repo)
    if outp:
        outp.write_text(txt)
    else:
        sys.stdout.write(txt)
    return 1 if any(r["error"] for r in res.values()) else 0


if __name__ == "__main__":
    sys.exit(main(sys.argv[1:]))
