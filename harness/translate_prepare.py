"""C12 translator: regenerate, from the Python source of the repo working tree, the ORDER of checks and effects that
`Pipeline.map` performs before the first user function can run (`prepare_run` and what it calls).

    python -m harness.translate_prepare [--repo PATH] [--out coq/gen/Gen_PrepareSteps.v]

What it does
  * parses (with `ast`, nothing is imported or executed) the functions listed in SOURCES,
  * walks the body of `prepare_run` in evaluation order (arguments before the call, statements in order),
  * INLINES callees listed in INLINE (the functions that mix checks and effects: `RunInfo.create`,
    `RunInfo.__post_init__` at the `cls(...)` call, `RunInfo.init_store`, `RunInfo.storage_class`, `_maybe_run_folder`,
    `_compare_to_previous_run_info`, ...),
  * classifies every other callee with the hand-written TABLE into Check | Effect | Rewrite | Pure,
  * every `raise` / `assert` statement is a Check,
  * resolves the conditions listed in the path's ASSUMPTIONS (e.g. `cleanup` is False, a run folder is given) and keeps
    only the branch taken; for every other `if` BOTH branches are emitted one after the other with the condition
    recorded in the label (conservative: more steps, never fewer); loop bodies are emitted once,
  * an UNKNOWN callee is emitted as step `Unknown` (fail closed: the Coq predicate is false on any Unknown).

A step label is `<callee>@<function it occurs in>[?<guards>]`.  Two steps with the same label are the same lexical check
(e.g. the helper `_storage_class` inlined both into the up-front validation and into `init_store`).

Trusted (see TRUSTED in harness/props/c12.py): the TABLE (validated dynamically on every run by the audit-hook
wrapper in c12.py and statically below: a callee classified Pure whose source is available must not contain `raise`),
attribute/property access and operators are effect-free, the ASSUMPTIONS describe the path.
"""
from __future__ import annotations

import ast
import os
import sys
from pathlib import Path

# ----------------------------------------------------------------------------------------------- configuration
PREP = "pipefunc/map/_prepare.py"
RINFO = "pipefunc/map/_run_info.py"
PROG = "pipefunc/map/_progress.py"
BASE = "pipefunc/_pipeline/_base.py"

# function key -> (file, qualname)
SOURCES = {
    "prepare_run": (PREP, "prepare_run"),
    "RunInfo.create": (RINFO, "RunInfo.create"),
    "RunInfo.__post_init__": (RINFO, "RunInfo.__post_init__"),
    "RunInfo.init_store": (RINFO, "RunInfo.init_store"),
    "RunInfo.storage_class": (RINFO, "RunInfo.storage_class"),
    "_storage_class": (RINFO, "_storage_class"),            # exists after the C12 repair only
    "_validate_storage": (RINFO, "_validate_storage"),      # exists after the C12 repair only
    "_maybe_run_folder": (RINFO, "_maybe_run_folder"),
    "_requires_serialization": (RINFO, "_requires_serialization"),
    "_compare_to_previous_run_info": (RINFO, "_compare_to_previous_run_info"),
    "init_tracker": (PROG, "init_tracker"),
    # the entry of pipeline(output, **kwargs)
    "Pipeline.run": (BASE, "Pipeline.run"),
    "Pipeline._validate_run_kwargs": (BASE, "Pipeline._validate_run_kwargs"),
    "Pipeline._validate_run_kwargs.visit": (BASE, "Pipeline._validate_run_kwargs.visit"),
}
OPTIONAL_SOURCES = {"_storage_class", "_validate_storage"}

# call-site text -> function key (inlined).  "<func>::<callee>" entries take precedence over "<callee>".
INLINE = {
    "RunInfo.create": "RunInfo.create",
    "RunInfo.create::cls": "RunInfo.__post_init__",      # constructing the dataclass runs __post_init__ (dumps!)
    "run_info.init_store": "RunInfo.init_store",
    "self.storage_class": "RunInfo.storage_class",
    "_storage_class": "_storage_class",
    "_validate_storage": "_validate_storage",
    "_maybe_run_folder": "_maybe_run_folder",
    "_requires_serialization": "_requires_serialization",
    "_compare_to_previous_run_info": "_compare_to_previous_run_info",
    "init_tracker": "init_tracker",
    "self._validate_run_kwargs": "Pipeline._validate_run_kwargs",
    "Pipeline._validate_run_kwargs::visit": "Pipeline._validate_run_kwargs.visit",
    "Pipeline._validate_run_kwargs.visit::visit": "Pipeline._validate_run_kwargs.visit",   # recursion: emitted once
}

# call-site text -> class.  Check: may raise, touches no file.  Effect: writes/creates/removes files.
# Rewrite: writes back exactly what it has just read (idempotent on the folder content).  Pure: neither.
TABLE = {
    # prepare_run
    "pipeline._flatten_scopes": "Pure",
    "pipeline.subpipeline": "Check",
    "set": "Pure", "isinstance": "Pure", "executor.copy": "Pure", "OrderedDict": "Pure", "dict": "Pure",
    "validate_slurm_executor": "Check",
    "_validate_complete_inputs": "Check",
    "validate_consistent_axes": "Check",
    "pipeline.mapspecs": "Pure",
    "_validate_fixed_indices": "Check",
    "_cannot_be_parallelized": "Pure",
    "_check_parallel": "Pure",
    # RunInfo.create
    "_cleanup_run_folder": "Effect",
    "_check_inputs": "Check",
    "_construct_internal_shapes": "Pure",
    "_normalize_storage_keys": "Pure",              # dict comprehension: a 1-tuple key becomes the bare name
    "map_shapes": "Check",
    # RunInfo.__post_init__
    "self.dump": "Effect",
    "dump": "Effect",
    "_input_path": "Pure", "_defaults_path": "Pure", "_output_path": "Pure",
    "self.inputs.items": "Pure",
    # RunInfo.init_store
    "at_least_tuple": "Pure", "zip": "Pure", "store.update": "Pure", "DirectValue": "Pure",
    "_init_arrays": "Effect",                       # constructs the storage arrays (FileArray creates its folder)
    # storage_class / _storage_class / _validate_storage / _requires_serialization
    "get_storage_class": "Check",
    "self.storage.get": "Pure", "storage.get": "Pure", "storage.values": "Pure", "any": "Pure",
    # _maybe_run_folder
    "tempfile.mkdtemp": "Effect",
    "warnings.warn": "Pure",
    "Path": "Pure",
    # _compare_to_previous_run_info
    "RunInfo.path": "Pure",
    "RunInfo.path(run_folder).is_file": "Pure",
    "RunInfo.load": "Rewrite",                      # cls(**data) -> __post_init__ re-dumps what was just loaded
    "equal_dicts": "Pure",
    "print": "Pure",
    # init_tracker
    "requires": "Check", "ProgressTracker": "Pure", "Status": "Pure",
    # Pipeline.run: `self._run` is where user functions are invoked for the first time = the "effect" of this path
    "self.func_dependencies": "Check", "self.root_args": "Check", "self._flatten_scopes": "Pure",
    "flat_scope_kwargs.copy": "Pure", "self._run": "Effect",
    "visited.update": "Pure", "used.add": "Pure", "flat_scope_kwargs.keys": "Pure", "sorted": "Pure",
    "', '.join": "Pure",
}

# where the wrapped callables live (for the dynamic validation of TABLE in c12.py): callee text -> (module, attr path)
PATCH = {
    "pipeline._flatten_scopes": ("pipefunc._pipeline._base", "Pipeline._flatten_scopes"),
    "pipeline.subpipeline": ("pipefunc._pipeline._base", "Pipeline.subpipeline"),
    "validate_slurm_executor": ("pipefunc.map._prepare", "validate_slurm_executor"),
    "_validate_complete_inputs": ("pipefunc.map._prepare", "_validate_complete_inputs"),
    "validate_consistent_axes": ("pipefunc.map._prepare", "validate_consistent_axes"),
    "pipeline.mapspecs": ("pipefunc._pipeline._base", "Pipeline.mapspecs"),
    "_validate_fixed_indices": ("pipefunc.map._prepare", "_validate_fixed_indices"),
    "_cannot_be_parallelized": ("pipefunc.map._prepare", "_cannot_be_parallelized"),
    "_check_parallel": ("pipefunc.map._prepare", "_check_parallel"),
    "_cleanup_run_folder": ("pipefunc.map._run_info", "_cleanup_run_folder"),
    "_check_inputs": ("pipefunc.map._run_info", "_check_inputs"),
    "_construct_internal_shapes": ("pipefunc.map._run_info", "_construct_internal_shapes"),
    "_normalize_storage_keys": ("pipefunc.map._run_info", "_normalize_storage_keys"),
    "map_shapes": ("pipefunc.map._run_info", "map_shapes"),
    "self.dump": ("pipefunc.map._run_info", "RunInfo.dump"),
    "dump": ("pipefunc.map._run_info", "dump"),
    "_input_path": ("pipefunc.map._run_info", "_input_path"),
    "_defaults_path": ("pipefunc.map._run_info", "_defaults_path"),
    "_output_path": ("pipefunc.map._run_info", "_output_path"),
    "at_least_tuple": ("pipefunc.map._run_info", "at_least_tuple"),
    "DirectValue": ("pipefunc.map._run_info", "DirectValue"),
    "_init_arrays": ("pipefunc.map._run_info", "_init_arrays"),
    "get_storage_class": ("pipefunc.map._run_info", "get_storage_class"),
    "RunInfo.load": ("pipefunc.map._run_info", "RunInfo.load"),
    "equal_dicts": ("pipefunc.map._run_info", "equal_dicts"),
}

# conditions resolved on a path: unparsed test text -> truth value
ASSUME_COMMON = {
    "run_folder is None": False,            # a run folder is given (the property speaks about an opened run folder)
    "run_folder is not None": True,
    "self.run_folder is None": False,
    "isinstance(self.run_folder, Path)": True,
    "not show_progress": True,              # show_progress=False (else: ipywidgets import check inside init_tracker)
}
PATHS = {
    "steps_cleanup_false": dict(ASSUME_COMMON, cleanup=False),
    "steps_cleanup_true": dict(ASSUME_COMMON, cleanup=True),
    "steps_run": {},
}
ENTRY = {"steps_run": "Pipeline.run"}        # default entry: prepare_run


class TranslateError(Exception):
    pass


# ----------------------------------------------------------------------------------------------- parsing
def _index(tree):
    idx = {}

    def visit(node, prefix=""):
        for ch in ast.iter_child_nodes(node):
            if isinstance(ch, (ast.FunctionDef, ast.AsyncFunctionDef, ast.ClassDef)):
                idx[prefix + ch.name] = ch
                visit(ch, prefix + ch.name + ".")

    visit(tree)
    return idx


def load_sources(repo: Path):
    trees, funcs = {}, {}
    for key, (rel, qual) in SOURCES.items():
        if rel not in trees:
            trees[rel] = _index(ast.parse((repo / rel).read_text()))
        node = trees[rel].get(qual)
        if node is None:
            if key in OPTIONAL_SOURCES:
                continue
            raise TranslateError(f"function {qual} not found in {rel}")
        funcs[key] = node
    return funcs, trees


# ----------------------------------------------------------------------------------------------- translation
class Walker:
    def __init__(self, funcs, assume):
        self.funcs = funcs
        self.assume = assume
        self.steps = []          # (kind, label)
        self.stack = []          # function keys being inlined
        self.guards = []         # guard texts inside the current function (reset per inlined function)

    # -- helpers
    def label(self, what):
        g = ("?" + "&".join(self.guards)) if self.guards else ""
        return f"{what}@{self.stack[-1]}{g}"

    def emit(self, kind, what):
        self.steps.append((kind, self.label(what)))

    def truth(self, test):
        """Value of a condition on this path: True / False / None (unknown)."""
        txt = ast.unparse(test)
        if txt in self.assume:
            return self.assume[txt]
        if isinstance(test, ast.UnaryOp) and isinstance(test.op, ast.Not):
            v = self.truth(test.operand)
            return None if v is None else (not v)
        if isinstance(test, ast.BoolOp):
            vals = [self.truth(v) for v in test.values]
            absorbing = not isinstance(test.op, ast.And)       # False absorbs `and`, True absorbs `or`
            if any(v is absorbing for v in vals):
                return absorbing
            if all(v is (not absorbing) for v in vals):
                return not absorbing
        return None

    # -- expressions (evaluation order: receiver/func, positional args, keyword args, then the call itself)
    def expr(self, node):
        if node is None:
            return
        if isinstance(node, ast.Call):
            if isinstance(node.func, ast.Attribute):
                self.expr(node.func.value)
            elif not isinstance(node.func, ast.Name):
                self.expr(node.func)
            for a in node.args:
                self.expr(a.value if isinstance(a, ast.Starred) else a)
            for k in node.keywords:
                self.expr(k.value)
            self.call(ast.unparse(node.func))
            return
        if isinstance(node, ast.BoolOp):
            # short circuit: a known operand may end the evaluation
            is_and = isinstance(node.op, ast.And)
            for v in node.values:
                t = self.truth(v)
                self.expr(v)
                if t is not None and t != is_and:
                    return
            return
        if isinstance(node, ast.IfExp):
            t = self.truth(node.test)
            self.expr(node.test)
            if t is not False:
                self.expr(node.body)
            if t is not True:
                self.expr(node.orelse)
            return
        if isinstance(node, (ast.Lambda, ast.Constant, ast.Name)):
            return
        if isinstance(node, (ast.ListComp, ast.SetComp, ast.GeneratorExp, ast.DictComp)):
            for g in node.generators:
                self.expr(g.iter)
            self.guards.append("for")
            for g in node.generators:
                for c in g.ifs:
                    self.expr(c)
            if isinstance(node, ast.DictComp):
                self.expr(node.key)
                self.expr(node.value)
            else:
                self.expr(node.elt)
            self.guards.pop()
            return
        if isinstance(node, ast.NamedExpr):
            self.expr(node.value)
            return
        for ch in ast.iter_child_nodes(node):
            if isinstance(ch, ast.expr):
                self.expr(ch)
            elif isinstance(ch, ast.keyword):
                self.expr(ch.value)

    def call(self, callee):
        here = self.stack[-1]
        key = INLINE.get(f"{here}::{callee}", INLINE.get(callee))
        if key is not None and key in self.funcs:
            if key in self.stack:
                self.emit("Pure", callee + " (recursive call, body emitted once)")
                return
            saved = self.guards
            self.guards = []
            self.stack.append(key)
            self.block(self.funcs[key].body)
            self.stack.pop()
            self.guards = saved
            return
        cls = TABLE.get(f"{here}::{callee}", TABLE.get(callee))
        if cls is None:
            self.emit("Unknown", callee)
        else:
            self.emit(cls, callee)

    # -- statements; returns True when the rest of the function is certainly not executed (return / raise)
    def block(self, stmts):
        for st in stmts:
            if self.stmt(st):
                return True
        return False

    def stmt(self, st):
        if isinstance(st, (ast.FunctionDef, ast.AsyncFunctionDef, ast.ClassDef, ast.Import, ast.ImportFrom, ast.Pass,
                           ast.Global, ast.Nonlocal)):
            return False
        if isinstance(st, ast.Expr):
            if isinstance(st.value, ast.Constant):
                return False            # docstring
            self.expr(st.value)
            return False
        if isinstance(st, (ast.Assign, ast.AnnAssign, ast.AugAssign)):
            self.expr(st.value)
            return False
        if isinstance(st, ast.Return):
            self.expr(st.value)
            return not self.guards       # only an unconditional return ends the inlined function for sure
        if isinstance(st, ast.Raise):
            if isinstance(st.exc, ast.Call):       # building the exception object: only its arguments are evaluated
                for a in st.exc.args:
                    self.expr(a)
                for k in st.exc.keywords:
                    self.expr(k.value)
                name = ast.unparse(st.exc.func)
            else:
                name = ast.unparse(st.exc) if st.exc else ""
            self.emit("Check", f"raise {name}".strip())
            return not self.guards
        if isinstance(st, ast.Assert):
            self.expr(st.test)
            self.emit("Check", "assert")
            return False
        if isinstance(st, ast.If):
            t = self.truth(st.test)
            self.expr(st.test)
            if t is True:
                return self.block(st.body)
            if t is False:
                return self.block(st.orelse)
            txt = ast.unparse(st.test)
            self.guards.append("if " + txt)
            self.block(st.body)
            self.guards.pop()
            if st.orelse:
                self.guards.append("else " + txt)
                self.block(st.orelse)
                self.guards.pop()
            return False
        if isinstance(st, (ast.For, ast.AsyncFor)):
            self.expr(st.iter)
            self.guards.append("for")
            self.block(st.body)
            self.guards.pop()
            self.block(st.orelse)
            return False
        if isinstance(st, ast.While):
            self.expr(st.test)
            self.guards.append("while")
            self.block(st.body)
            self.guards.pop()
            return False
        if isinstance(st, ast.Try):
            self.guards.append("try")
            self.block(st.body)
            self.guards.pop()
            for h in st.handlers:
                self.guards.append("except")
                self.block(h.body)
                self.guards.pop()
            self.block(st.orelse)
            self.block(st.finalbody)
            return False
        if isinstance(st, (ast.With, ast.AsyncWith)):
            for it in st.items:
                self.expr(it.context_expr)
            return self.block(st.body)
        raise TranslateError(f"unsupported statement {type(st).__name__} in {self.stack[-1]}")


def translate(repo: Path):
    """Return {path name: [(kind, label), ...]} for the paths of PATHS."""
    funcs, trees = load_sources(repo)
    out = {}
    for name, assume in PATHS.items():
        w = Walker(funcs, dict(assume))
        entry = ENTRY.get(name, "prepare_run")
        w.stack.append(entry)
        w.block(funcs[entry].body)
        out[name] = w.steps
    return out, static_table_problems(trees)


def static_table_problems(trees):
    """A callee classified Pure / Effect whose definition is visible in the parsed files must not contain `raise`."""
    problems = []
    flat = {}
    for idx in trees.values():
        for q, node in idx.items():
            flat.setdefault(q.split(".")[-1], []).append(node)
    for callee, cls in TABLE.items():
        if cls != "Pure":
            continue
        text = callee.split("::")[-1]
        if "." in text and text.rsplit(".", 1)[0] not in ("self", "pipeline", "RunInfo", "cls", "run_info"):
            continue        # a method of some local object (set.add, str.join, dict.keys, ...): not defined in these files
        simple = text.split(".")[-1]
        for node in flat.get(simple, []):
            if isinstance(node, ast.ClassDef):
                continue
            for sub in ast.walk(node):
                if isinstance(sub, (ast.Raise, ast.Assert)):
                    problems.append(f"{callee} is classified Pure but its source contains a raise/assert")
                    break
    return problems


# ----------------------------------------------------------------------------------------------- emission
def skeleton(steps):
    """Steps without the Pure ones (what the correspondence case observes)."""
    return [[k, l] for k, l in steps if k != "Pure"]


def coq_str(x: str) -> str:
    assert all(32 <= ord(c) <= 126 for c in x), x
    return '(s "' + x.replace('"', '""') + '")'


def emit_coq(paths, repo: Path) -> str:
    lines = ["(* GENERATED on every C12 run by harness/translate_prepare.py from the Python sources of",
             f"   {repo} (pipefunc/map/_prepare.py, _run_info.py, _progress.py, _pipeline/_base.py).  Do not edit, do not commit. *)",
             "From Verif Require Import Base.Prelude Model.PrepareSteps.", ""]
    for name, steps in paths.items():
        lines.append(f"Definition {name} : list step := [")
        lines.append(";\n".join(f"  {k} {coq_str(l)}" for k, l in steps))
        lines.append("].\n")
    return "\n".join(lines)


def main(argv=None):
    import argparse

    ap = argparse.ArgumentParser()
    ap.add_argument("--repo", default=os.environ.get("VERIF_REPO", "/repo"))
    ap.add_argument("--out")
    a = ap.parse_args(argv)
    paths, problems = translate(Path(a.repo))
    txt = emit_coq(paths, Path(a.repo))
    if a.out:
        Path(a.out).parent.mkdir(parents=True, exist_ok=True)
        Path(a.out).write_text(txt)
    else:
        print(txt)
    for p in problems:
        print("TABLE PROBLEM:", p, file=sys.stderr)
    unknown = [l for steps in paths.values() for k, l in steps if k == "Unknown"]
    for u in unknown:
        print("UNKNOWN CALLEE:", u, file=sys.stderr)
    return 1 if (unknown or problems) else 0


if __name__ == "__main__":
    sys.exit(main())
